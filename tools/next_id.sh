#!/bin/bash
# next_id.sh <PROP>: next free seeded/<PROP>-<letter>
for l in a b c d e f g h i j k l m n o p q r s t u v w x y z; do [ -d /verif/seeded/$1-$l ] || { echo $1-$l; exit 0; }; done
