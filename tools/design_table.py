#!/usr/bin/env python3
"""Regenerate DESIGN.md section 10 (seeded changes) from seeded/*/meta.json."""
import json, glob, re
rows = []
for f in sorted(glob.glob('/verif/seeded/*/meta.json')):
    m = json.load(open(f))
    needs = m['needs_to_manifest']
    missed = ('missed' in needs) or not m['caught_by_quick_checks']
    rows.append((m['id'], m['property'], ', '.join(m['caught_by_quick_checks']) or '—', 'no' if missed else 'yes', needs.replace('|', '\\|')))
first = sum(1 for r in rows if r[3] == 'yes')
obsolete = [json.load(open(f))['id'] for f in sorted(glob.glob('/verif/seeded/*/meta.json')) if 'obsolete' in json.load(open(f))]
uncaught = [r[0] for r in rows if r[2] == '—' and r[0] not in obsolete]
txt = []
txt.append('## 10. Seeded changes and which check catches which\n')
txt.append('`/verif/seeded/<id>/` holds %d changes to xarantolus/ax (`patch.diff`), each with a demonstration\n'
           '(`demo_mutant.rs`) and `meta.json`. Every one was written by a fresh sub-agent that saw only the text of\n'
           'one property and its own scratch worktree, and was kept only after `tools/verify_mutant.sh` confirmed in\n'
           'that worktree that it compiles, that the repository\'s unedited suite still passes (2300/2300), and that\n'
           'the demonstration fails with the change and passes without it. `tools/eval_mutant.sh` applies a patch to\n'
           '/repo, runs quick checks (evidence and replays redirected to `target/`), and undoes it.\n' % len(rows))
txt.append('Four rounds were run (…-a/-b: round 1; …-c/-d: round 2, whose agents were told which kinds of ideas had\n'
           'been used and asked for something different; round 3: refactoring-style regressions and state carried\n'
           'across instructions; round 4: three changes each, one per mechanism anchored in the property record; round-2 changes that merely repeated a round-1 change\n'
           'were verified, evaluated — all caught — and not archived). **%d of the %d changes were caught by a quick\n'
           'check the first time it saw them; the other %d were missed and led to a stronger generator or oracle**\n'
           '(column "first run"; what was missing is in the last column and in each `meta.json`). %d are caught now;\n'
           'not caught: %s (the harness cannot demand more there without raising alarms on legitimate changes — see\n'
           'its row); obsolete: %s (overtaken by a repair of the pinned tree that it led to; its rebased patch no\n'
           'longer fails its own demonstration). Patches that touched lines later changed by fix commits were rebased\n'
           '(`patch.orig.diff` keeps the original) and re-confirmed with `tools/reverify_rebased.sh`.\n'
           '`tools/matrix.sh` re-runs the whole matrix.\n' % (first, len(rows), len(rows) - first, len(rows) - len(uncaught) - len(obsolete), ', '.join(uncaught) or 'none', ', '.join(obsolete) or 'none'))
txt.append('| id | property | caught by (quick) | first run | what it needs to manifest / why it was missed |')
txt.append('|---|---|---|---|---|')
for r in rows:
    txt.append('| %s | %s | %s | %s | %s |' % r)
txt.append('')
txt.append('Lessons that shaped the harness: single-instruction differential checks miss state carried across\n'
           'instructions (C04 programs were added); an oracle that discards "the other side failed" needs a sibling\n'
           'check that owns the verdict (C01→C06, C05→C06 until C05 took over ok-vs-fault); model-based checks miss\n'
           'whatever their operation alphabet lacks (late limit, RIP-writing hooks, stop-then-error, wrong-end and\n'
           'faulting pipe calls, resize before access, adjacent areas, duplicate starts) — each such gap was closed by\n'
           'widening the alphabet, never by special-casing the seeded change.\n')
txt.append('---------------------------------------------------------------------------------------------\n')
s = open('/verif/DESIGN.md').read()
i = s.index('## 10. Seeded changes and which check catches which')
j = s.index('## 11. Benign-change drill') if '## 11. Benign-change drill' in s else s.index('## Appendix A.')
s = s[:i] + '\n'.join(txt) + '\n' + s[j:]
open('/verif/DESIGN.md', 'w').write(s)
print(len(rows), 'rows;', first, 'caught on first run')
