#!/bin/bash
# matrix.sh: re-run every seeded change against the checks listed in its meta.json (plus its own property)
# and rewrite meta.json's caught_by_quick_checks with what was measured. /repo must be clean.
cd /verif
# optional arguments: ids (default: all)
LIST="${@:-$(ls seeded)}"
for ID0 in $LIST; do
  D=seeded/$ID0/
  ID=$(basename $D)
  CHECKS=$(python3 -c "
import json
m=json.load(open('$D/meta.json'))
print(' '.join(sorted(set([m['property']]+m['caught_by_quick_checks']))))")
  CAUGHT=""
  for C in $CHECKS; do
    R=$(tools/eval_mutant.sh $D/patch.diff $C 2>&1 | grep "^== $C" | sed 's/.*exit=//')
    [ -z "$R" ] && { echo "$ID: evaluation of $C did not run"; continue 2; }
    [ "$R" = "1" ] && CAUGHT="$CAUGHT $C"
  done
  echo "$ID:$CAUGHT"
  python3 - "$D/meta.json" $CAUGHT <<'PY'
import json, sys
p = sys.argv[1]; m = json.load(open(p)); m['caught_by_quick_checks'] = sys.argv[2:]; json.dump(m, open(p, 'w'), indent=1)
PY
done
