#!/bin/bash
# verify_mutant.sh <worktree> <n>: confirm independently that mutant n (a) compiles, (b) passes the
# repository's unedited suite, (c) its demonstration fails with the patch and passes without it.
# Leaves the worktree clean.
WT="$1"; N="$2"; M="$WT/MUTANTS/$N"
cd "$WT" || exit 2
git checkout -q -- src; rm -f tests/demo_mutant.rs
git apply --check "$M/patch.diff" || { echo "RESULT patch-does-not-apply"; exit 1; }
mkdir -p tests; cp "$M/demo_mutant.rs" tests/demo_mutant.rs
cargo test --offline --test demo_mutant > "$M/demo_clean.log" 2>&1; CLEAN=$?
git apply "$M/patch.diff"
cargo build --offline > "$M/build.log" 2>&1; BUILD=$?
cargo test --offline --lib > "$M/suite.log" 2>&1; SUITE=$?
PASSED=$(grep -E "^test result" "$M/suite.log" | head -1)
cargo test --offline --test demo_mutant > "$M/demo_mutant.log" 2>&1; MUT=$?
git checkout -q -- src; rm -f tests/demo_mutant.rs
echo "RESULT build=$BUILD suite=$SUITE ($PASSED) demo_on_clean=$CLEAN demo_on_mutant=$MUT"
[ $BUILD -eq 0 ] && [ $SUITE -eq 0 ] && [ $CLEAN -eq 0 ] && [ $MUT -ne 0 ]
