#!/usr/bin/env python3
"""Rewrite the 'fixed' entries of known_findings.json (and MANIFEST.hooks.source_commits) from
/repo's git log: one entry per (fix commit, property). Known entries are left untouched."""
import json, subprocess
props = {
 'ELF loader aborted':['C16'],'ELF loader rounded':['C15'],'only the first after-hook':['C12'],'64-bit register accessors accepted EIP':['C07'],
 'CS segment override':['C06'],'rendering the trace panicked':['C18'],'brk(0) returned':['C13'],"failing native hook left":['C12'],
 'init_stack_program_start put':['C17'],'never returned for an empty area':['C10'],'mem_resize_section compared':['C10','C13'],
 'only checked its start address':['C10','C17'],'memory bound checks overflowed':['C08','C19'],'panicked on RSP arithmetic':['C19','C04'],
 'XORPS accepted':['C06'],'MOVZX r16':['C06','C19','C05'],'MOV moffs':['C06','C19','C05','C01'],'LEA added':['C05','C01'],
 '0x67 address-size':['C05','C19','C06'],'converting SupportedRegister::EIP':['C07'],'SHR imm8/CL':['C01','C02','C06','C19'],
 'SHL imm8/CL':['C02','C06','C19'],'CMOVcc with a false':['C01','C06'],'CMOVAE moved':['C01'],'SETB did not':['C01'],
 'IDIV r/m8|16|32':['C01','C06'],'DIV reported':['C06'],'ADC r/m16|32|64, imm8':['C01','C02'],'ADC r/m8|16|32, r left':['C02'],'POP RSP / POP SP':['C04'],'init_stack_program_start made a RET':['C11'],'built-in brk handler let the guest abort':['C13'],'RET ended the run on a machine without a stack':['C04','C06'],
}
log = subprocess.check_output(['git','-C','/repo','log','--reverse','--format=%h\t%s']).decode().splitlines()
d = json.load(open('/verif/known_findings.json'))
d['findings'] = [f for f in d['findings'] if f['status'] == 'known']
for l in log:
    h, s = l.split('\t', 1)
    if not s.startswith('fix:'):
        continue
    ps = next((v for k, v in props.items() if k in s), None)
    assert ps, 'unmapped fix commit: ' + s
    for p in ps:
        d['findings'].append({"status": "fixed", "property": p, "commit": h, "what": s[5:]})
json.dump(d, open('/verif/known_findings.json', 'w'), indent=1)
m = json.load(open('/verif/MANIFEST.json'))
m['hooks']['source_commits'] = subprocess.check_output(['git','-C','/repo','log','--format=%h','--grep=verif hooks']).decode().split()
json.dump(m, open('/verif/MANIFEST.json', 'w'), indent=1)
print(len(d['findings']), 'entries;', m['hooks']['source_commits'])
