#!/bin/bash
# For every 'fix:' commit in /repo: revert it in the working tree (never committed), run the quick
# checks of the properties it is listed under in known_findings.json, and keep up to two shrunk
# replay files per (commit, property) as regression cases. This doubles as the sensitivity drill
# "does the check still see the original defect?". /repo is restored after every commit.
cd /repo || exit 2
git diff --quiet || { echo "/repo not clean"; exit 2; }
OUT=/verif/target/revert-drill; mkdir -p $OUT; touch $OUT/summary.txt   # resumes: pairs already in summary.txt are skipped
python3 - <<'PY' > $OUT/plan.txt
import json
d=json.load(open('/verif/known_findings.json'))
seen={}
for f in d['findings']:
    if f['status']=='fixed': seen.setdefault(f['commit'],[]).append(f['property'])
for c,ps in seen.items(): print(c,' '.join(sorted(set(ps))))
PY
exec 9>/verif/target/.repo.lock; export AXVERIF_LOCK_HELD=1
while read C PROPS; do
  flock 9    # /repo is modified from here to the reset below (see /verif/check)
  SUBJ=$(git log -1 --format=%s $C | sed 's/^fix: //' | tr -c 'A-Za-z0-9' '_' | cut -c1-40 | tr 'A-Z' 'a-z')
  grep -q "^$C .*skipped" $OUT/summary.txt && continue
  if ! git revert --no-commit $C >/dev/null 2>&1; then
    git revert --abort 2>/dev/null; git reset -q --hard HEAD
    echo "$C $SUBJ: revert conflicts with later fixes (skipped)" >> $OUT/summary.txt; flock -u 9; continue
  fi
  for P in $PROPS; do
    grep -q "^$C $P " $OUT/summary.txt && continue
    RD=$OUT/$C-$P; rm -rf $RD; mkdir -p $RD
    R=$(cd /verif && AXVERIF_EVIDENCE_DIR=/verif/target/mutant-evidence AXVERIF_REPLAY_DIR=$RD ./check $P quick 2>&1); RC=$?
    NV=$(echo "$R" | grep -c "^VIOLATION")
    echo "$C $P exit=$RC violations=$NV  $SUBJ" >> $OUT/summary.txt
    K=0
    for F in $(echo "$R" | grep "^VIOLATION" | sed 's/.*replay=//' | grep "^$RD" | head -2); do
      K=$((K+1)); mkdir -p /verif/replays/regress/$P
      [ -f "$F" ] && cp "$F" /verif/replays/regress/$P/revert-$SUBJ-$K.json
    done
  done
  git reset -q --hard HEAD
  flock -u 9
done < $OUT/plan.txt
cat $OUT/summary.txt
