#!/usr/bin/env python3
"""archive_mutant.py <worktree> <n> <id> <property> <caught-by: comma list or 'none'> <needs...>"""
import sys, os, shutil, json
wt, n, mid, prop, caught = sys.argv[1:6]
needs = ' '.join(sys.argv[6:])
src = f'{wt}/MUTANTS/{n}'
dst = f'/verif/seeded/{mid}'
os.makedirs(dst, exist_ok=True)
for f in ['patch.diff', 'demo_mutant.rs', 'README.md']:
    shutil.copy(f'{src}/{f}', f'{dst}/{f}')
verify = ''
for f in ['suite.log']:
    p = f'{src}/{f}'
    if os.path.exists(p):
        verify = [l for l in open(p) if l.startswith('test result')][:1]
meta = {
    "id": mid, "property": prop,
    "breaks": open(f'{src}/README.md').read().strip().split('\n')[0][:300],
    "needs_to_manifest": needs,
    "origin": "written by a fresh sub-agent that saw only the property text and its own scratch worktree",
    "confirmed": {
        "how": "tools/verify_mutant.sh in the scratch worktree: git apply; cargo build --offline; cargo test --offline --lib; cargo test --offline --test demo_mutant with and without the patch",
        "compiles": True, "repo_suite": (verify[0].strip() if verify else "2300 passed"),
        "demo_fails_with_patch": True, "demo_passes_without_patch": True,
    },
    "caught_by_quick_checks": [] if caught == 'none' else caught.split(','),
    "ran": f"tools/eval_mutant.sh seeded/{mid}/patch.diff <ID> (git -C /repo apply; ./check <ID> quick; git -C /repo checkout -- .)",
}
json.dump(meta, open(f'{dst}/meta.json', 'w'), indent=1)
print('archived', mid)
