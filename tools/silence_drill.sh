#!/bin/bash
# silence_drill.sh <from-seed> <to-seed> [tier]: every check must stay silent (exit 0, no VIOLATION) on the unchanged tree
cd /verif; T=${3:-quick}
for S in $(seq $1 $2); do
  for P in C01 C02 C03 C04 C05 C06 C07 C08 C09 C10 C11 C12 C13 C14 C15 C16 C17 C18 C19 C20; do
    OUT=$(VERIF_SEED=$S ./check $P $T 2>&1); RC=$?
    if [ $RC -ne 0 ] || echo "$OUT" | grep -q "^VIOLATION"; then
      echo "seed $S $P exit=$RC"; echo "$OUT" | grep -A6 "^VIOLATION\|^INCONCLUSIVE" | head -20
      mkdir -p /verif/target/silence; echo "$OUT" > /verif/target/silence/$P-$S.out
    fi
  done
  echo "seed $S done"
done
