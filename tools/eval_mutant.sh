#!/bin/bash
# eval_mutant.sh <patch.diff> <ID> [<ID>...]: apply a seeded change to /repo, run the quick checks,
# print their exit codes and VIOLATION lines, and undo the change straight afterwards.
P="$(realpath "$1")"; shift
# hold the /repo lock (see /verif/check) for as long as the change is applied
if [ -z "${AXVERIF_LOCK_HELD:-}" ]; then
  mkdir -p /verif/target; exec 9>/verif/target/.repo.lock; flock 9; export AXVERIF_LOCK_HELD=1
fi
cd /repo || exit 2
git diff --quiet || { echo "/repo is not clean"; exit 2; }
git apply "$P" || { echo "patch does not apply to /repo"; exit 2; }
trap 'git -C /repo checkout -- .' EXIT
for ID in "$@"; do
  OUT=$(cd /verif && AXVERIF_EVIDENCE_DIR=/verif/target/mutant-evidence AXVERIF_REPLAY_DIR=/verif/target/mutant-replays ./check "$ID" ${TIER:-quick} 2>&1); RC=$?
  echo "== $ID exit=$RC"
  echo "$OUT" | grep -A3 "^VIOLATION" | head -${LINES_MAX:-12}
  echo "$OUT" | tail -1
done
