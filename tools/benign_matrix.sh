#!/bin/bash
# benign_matrix.sh: apply every archived property-preserving change (benign/*/*/patch.diff, benign/hand/*.diff)
# to /repo in turn and run ALL quick checks (a third of their fixed work) against it. A check that reports a
# violation here is a false alarm unless the change breaks that *other* property (listed in EXPECTED below).
# Output: one line per (patch, alarm). /repo must be clean; the /repo lock is held per patch.
cd /verif
declare -A EXPECTED=( ["benign/C17/3/patch.diff:C20"]="AT_RANDOM bytes: genuine non-determinism (C20)" ["benign/C17/3/patch.diff:C11"]="AT_RANDOM bytes: the twin machines of execute() and step* differ in memory (same root cause as C20)" ["benign/C09/2/patch.diff:C08"]="accesses may span adjacent areas: C08 says an access past the end of its area fails" )
LIST="${@:-$(ls benign/C*/*/patch.diff benign/hand/*.diff)}"
for P in $LIST; do
  OUT=$(AXVERIF_CASES_DIV=3 tools/eval_mutant.sh $P C01 C02 C03 C04 C05 C06 C07 C08 C09 C10 C11 C12 C13 C14 C15 C16 C17 C18 C19 C20 2>&1)
  echo "$OUT" | grep -q "does not apply\|not clean" && { echo "$P: NOT EVALUATED ($(echo "$OUT" | head -1))"; continue; }
  ALARMS=""
  for ID in $(echo "$OUT" | grep "^== " | grep -v "exit=0" | sed 's/== \(C[0-9]*\) exit=\([0-9]*\)/\1:\2/'); do
    C=${ID%%:*}; RC=${ID##*:}
    if [ -n "${EXPECTED[$P:$C]:-}" ]; then ALARMS="$ALARMS $C(expected: ${EXPECTED[$P:$C]})"; else ALARMS="$ALARMS $C(exit=$RC,UNEXPECTED)"; fi
  done
  echo "$P:${ALARMS:- silent on all 20}"
done
