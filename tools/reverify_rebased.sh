#!/bin/bash
# reverify_rebased.sh <worktree> <id>...: for seeded changes whose patch had to be rebased onto later fix commits:
# build, repository suite, demonstration with and without the patch — in a scratch worktree of /repo's HEAD.
WT=$1; shift
cd $WT || exit 2
for M in "$@"; do
  git reset -q --hard HEAD; rm -f tests/demo_mutant.rs; mkdir -p tests
  cp /verif/seeded/$M/demo_mutant.rs tests/demo_mutant.rs
  cargo test --offline --test demo_mutant > /tmp/rv-$M-clean.log 2>&1; CLEAN=$?
  git apply /verif/seeded/$M/patch.diff || { echo "$M: does not apply"; continue; }
  cargo build --offline > /dev/null 2>&1; B=$?
  cargo test --offline --lib > /tmp/rv-$M-suite.log 2>&1; S=$?
  cargo test --offline --test demo_mutant > /tmp/rv-$M-mut.log 2>&1; MUT=$?
  echo "$M: build=$B suite=$S ($(grep '^test result' /tmp/rv-$M-suite.log | head -1 | cut -c1-40)) demo_without_patch=$CLEAN demo_with_patch=$MUT"
  git reset -q --hard HEAD; rm -f tests/demo_mutant.rs
done
