//! Slot-grid programs for the program-level properties (C11, C12, C18, C20): one instruction
//! (or a `mov r, imm64` + indirect transfer pair) per 16-byte slot, padded with NOPs, so that every
//! branch target is a slot address and no layout iteration is needed.
use crate::tape::Tape;
use iced_x86::{Code, Encoder, Instruction, Register};
use serde::{Deserialize, Serialize};

pub const SLOT: u64 = 16;
/// data area used by the XMM load/store slots (absolute disp32 addressing)
pub const XMM_DATA: u64 = 0x60_0000;
pub const REGS: [Register; 10] = [Register::RAX, Register::RCX, Register::RDX, Register::RBX, Register::RSI, Register::RDI, Register::R8, Register::R9, Register::R10, Register::R11];

#[derive(Clone, Debug, Serialize, Deserialize, PartialEq)]
pub enum PI {
    Nop,
    MovImm { r: u8, imm: u64 },
    /// op: 0 add 1 sub 2 xor 3 and 4 cmp 5 test
    Alu { op: u8, a: u8, b: u8 },
    AluImm { op: u8, a: u8, imm: i8 },
    IncDec { dec: bool, r: u8 },
    /// cc: index into JCC table; `to` is a slot index (n = code end, > n = past the end)
    Jcc { cc: u8, to: usize, short: bool },
    Jmp { to: usize, short: bool },
    JmpReg { r: u8, to: usize },
    Jrcxz { to: usize },
    Call { to: usize },
    CallReg { r: u8, to: usize },
    Ret,
    Push { r: u8 },
    Pop { r: u8 },
    Syscall,
    /// int imm8 (only placed by C20: an interrupt nobody hooks ends the run in an error whose text is compared)
    Int { n: u8 },
    Cld,
    /// mov [rsp+d], r64
    StoreRsp { d: i8, r: u8 },
    /// mov r64, [rsp+d]
    LoadRsp { d: i8, r: u8 },
    /// lea r64, [rsp+d]
    LeaRsp { d: i8, r: u8 },
    /// add rsp, imm8
    AddRsp { imm: i8 },
    PushImm { imm: i32 },
    Push16 { r: u8 },
    Pop16 { r: u8 },
    /// mov r64, r64
    MovReg { a: u8, b: u8 },
    /// jmp r64 / call r64 with whatever the register holds
    JmpR { r: u8 },
    CallR { r: u8 },
    /// op: 0 movups a,b (0F 10) 1 movups a,b (0F 11 encoding, register destination) 2 xorps a,b
    /// 3 movd xmm_a, r32_b 4 movd r32_a, xmm_b 5 movups [data+16*b], xmm_a 6 movups xmm_a, [data+16*b]
    Xmm { op: u8, a: u8, b: u8 },
}

pub const JCC32: [Code; 16] = [
    Code::Jo_rel32_64,
    Code::Jno_rel32_64,
    Code::Jb_rel32_64,
    Code::Jae_rel32_64,
    Code::Je_rel32_64,
    Code::Jne_rel32_64,
    Code::Jbe_rel32_64,
    Code::Ja_rel32_64,
    Code::Js_rel32_64,
    Code::Jns_rel32_64,
    Code::Jp_rel32_64,
    Code::Jnp_rel32_64,
    Code::Jl_rel32_64,
    Code::Jge_rel32_64,
    Code::Jle_rel32_64,
    Code::Jg_rel32_64,
];
pub const JCC8: [Code; 16] = [
    Code::Jo_rel8_64,
    Code::Jno_rel8_64,
    Code::Jb_rel8_64,
    Code::Jae_rel8_64,
    Code::Je_rel8_64,
    Code::Jne_rel8_64,
    Code::Jbe_rel8_64,
    Code::Ja_rel8_64,
    Code::Js_rel8_64,
    Code::Jns_rel8_64,
    Code::Jp_rel8_64,
    Code::Jnp_rel8_64,
    Code::Jl_rel8_64,
    Code::Jge_rel8_64,
    Code::Jle_rel8_64,
    Code::Jg_rel8_64,
];

/// Architectural condition of Jcc number `cc` on the status flags (harness's own table).
pub fn cond_holds(cc: u8, rflags: u64) -> bool {
    let cf = rflags & 1 != 0;
    let pf = rflags & 4 != 0;
    let zf = rflags & 0x40 != 0;
    let sf = rflags & 0x80 != 0;
    let of = rflags & 0x800 != 0;
    match cc {
        0 => of,
        1 => !of,
        2 => cf,
        3 => !cf,
        4 => zf,
        5 => !zf,
        6 => cf || zf,
        7 => !cf && !zf,
        8 => sf,
        9 => !sf,
        10 => pf,
        11 => !pf,
        12 => sf != of,
        13 => sf == of,
        14 => zf || sf != of,
        _ => !zf && sf == of,
    }
}

fn enc1(ins: Instruction, ip: u64, out: &mut Vec<u8>) -> u64 {
    let mut e = Encoder::new(64);
    let n = e.encode(&ins, ip).expect("program instruction encodes");
    out.extend_from_slice(&e.take_buffer());
    n as u64
}

pub fn slot_addr(base: u64, i: usize) -> u64 {
    base + SLOT * i as u64
}

/// Assemble the program at `base`. Returns the image (n slots) .
pub fn assemble(prog: &[PI], base: u64) -> Vec<u8> {
    let mut img = Vec::with_capacity(prog.len() * SLOT as usize);
    for (i, pi) in prog.iter().enumerate() {
        let ip = slot_addr(base, i);
        let mut b: Vec<u8> = vec![];
        let r = |k: &u8| REGS[*k as usize % REGS.len()];
        match pi {
            PI::Nop => b.push(0x90),
            PI::MovImm { r: k, imm } => {
                enc1(Instruction::with2(Code::Mov_r64_imm64, r(k), *imm).unwrap(), ip, &mut b);
            }
            PI::Alu { op, a, b: bb } => {
                let code = [Code::Add_rm64_r64, Code::Sub_rm64_r64, Code::Xor_rm64_r64, Code::And_rm64_r64, Code::Cmp_rm64_r64, Code::Test_rm64_r64][*op as usize % 6];
                enc1(Instruction::with2(code, r(a), r(bb)).unwrap(), ip, &mut b);
            }
            PI::AluImm { op, a, imm } => {
                let code = [Code::Add_rm64_imm8, Code::Sub_rm64_imm8, Code::Xor_rm64_imm8, Code::And_rm64_imm8, Code::Cmp_rm64_imm8][*op as usize % 5];
                enc1(Instruction::with2(code, r(a), *imm as i32).unwrap(), ip, &mut b);
            }
            PI::IncDec { dec, r: k } => {
                enc1(Instruction::with1(if *dec { Code::Dec_rm64 } else { Code::Inc_rm64 }, r(k)).unwrap(), ip, &mut b);
            }
            PI::Jcc { cc, to, short } => {
                let t = slot_addr(base, *to);
                let d = t as i64 - (ip as i64 + 2);
                let code = if *short && (-128..=127).contains(&d) { JCC8[*cc as usize % 16] } else { JCC32[*cc as usize % 16] };
                enc1(Instruction::with_branch(code, t).unwrap(), ip, &mut b);
            }
            PI::Jmp { to, short } => {
                let t = slot_addr(base, *to);
                let d = t as i64 - (ip as i64 + 2);
                let code = if *short && (-128..=127).contains(&d) { Code::Jmp_rel8_64 } else { Code::Jmp_rel32_64 };
                enc1(Instruction::with_branch(code, t).unwrap(), ip, &mut b);
            }
            PI::Jrcxz { to } => {
                let t = slot_addr(base, *to);
                let d = t as i64 - (ip as i64 + 2);
                if (-128..=127).contains(&d) {
                    enc1(Instruction::with_branch(Code::Jrcxz_rel8_64, t).unwrap(), ip, &mut b);
                } else {
                    b.push(0x90);
                }
            }
            PI::JmpReg { r: k, to } => {
                let n = enc1(Instruction::with2(Code::Mov_r64_imm64, r(k), slot_addr(base, *to)).unwrap(), ip, &mut b);
                enc1(Instruction::with1(Code::Jmp_rm64, r(k)).unwrap(), ip + n, &mut b);
            }
            PI::Call { to } => {
                enc1(Instruction::with_branch(Code::Call_rel32_64, slot_addr(base, *to)).unwrap(), ip, &mut b);
            }
            PI::CallReg { r: k, to } => {
                let n = enc1(Instruction::with2(Code::Mov_r64_imm64, r(k), slot_addr(base, *to)).unwrap(), ip, &mut b);
                enc1(Instruction::with1(Code::Call_rm64, r(k)).unwrap(), ip + n, &mut b);
            }
            PI::Ret => b.push(0xc3),
            PI::Push { r: k } => {
                enc1(Instruction::with1(Code::Push_r64, r(k)).unwrap(), ip, &mut b);
            }
            PI::Pop { r: k } => {
                enc1(Instruction::with1(Code::Pop_r64, r(k)).unwrap(), ip, &mut b);
            }
            PI::Syscall => b.extend_from_slice(&[0x0f, 0x05]),
            PI::Int { n } => b.extend_from_slice(&[0xcd, *n]),
            PI::Cld => b.push(0xfc),
            PI::StoreRsp { d, r: k } => {
                enc1(Instruction::with2(Code::Mov_rm64_r64, iced_x86::MemoryOperand::with_base_displ(Register::RSP, *d as i64), r(k)).unwrap(), ip, &mut b);
            }
            PI::LoadRsp { d, r: k } => {
                enc1(Instruction::with2(Code::Mov_r64_rm64, r(k), iced_x86::MemoryOperand::with_base_displ(Register::RSP, *d as i64)).unwrap(), ip, &mut b);
            }
            PI::LeaRsp { d, r: k } => {
                enc1(Instruction::with2(Code::Lea_r64_m, r(k), iced_x86::MemoryOperand::with_base_displ(Register::RSP, *d as i64)).unwrap(), ip, &mut b);
            }
            PI::AddRsp { imm } => {
                enc1(Instruction::with2(Code::Add_rm64_imm8, Register::RSP, *imm as i32).unwrap(), ip, &mut b);
            }
            PI::PushImm { imm } => {
                enc1(Instruction::with1(Code::Pushq_imm32, *imm).unwrap(), ip, &mut b);
            }
            PI::Push16 { r: k } => {
                enc1(Instruction::with1(Code::Push_r16, Register::AX + (r(k).number() as u32)).unwrap(), ip, &mut b);
            }
            PI::Pop16 { r: k } => {
                enc1(Instruction::with1(Code::Pop_r16, Register::AX + (r(k).number() as u32)).unwrap(), ip, &mut b);
            }
            PI::MovReg { a, b: bb } => {
                enc1(Instruction::with2(Code::Mov_r64_rm64, r(a), r(bb)).unwrap(), ip, &mut b);
            }
            PI::JmpR { r: k } => {
                enc1(Instruction::with1(Code::Jmp_rm64, r(k)).unwrap(), ip, &mut b);
            }
            PI::CallR { r: k } => {
                enc1(Instruction::with1(Code::Call_rm64, r(k)).unwrap(), ip, &mut b);
            }
            PI::Xmm { op, a, b: bb } => {
                let xa = Register::XMM0 + (*a as u32 % 8);
                let xb = Register::XMM0 + (*bb as u32 % 8);
                let mem = iced_x86::MemoryOperand::with_displ(XMM_DATA + 16 * (*bb as u64 % 8), 4);
                match op % 7 {
                    0 => {
                        enc1(Instruction::with2(Code::Movups_xmm_xmmm128, xa, xb).unwrap(), ip, &mut b);
                    }
                    1 => {
                        // the store encoding with a register destination: 0F 11 /r, mod = 3, reg = source, rm = destination
                        b.extend_from_slice(&[0x0f, 0x11, 0xc0 | ((xb.number() as u8 & 7) << 3) | (xa.number() as u8 & 7)]);
                    }
                    2 => {
                        enc1(Instruction::with2(Code::Xorps_xmm_xmmm128, xa, xb).unwrap(), ip, &mut b);
                    }
                    3 => {
                        enc1(Instruction::with2(Code::Movd_xmm_rm32, xa, Register::EAX + (r(bb).number() as u32)).unwrap(), ip, &mut b);
                    }
                    4 => {
                        enc1(Instruction::with2(Code::Movd_rm32_xmm, Register::EAX + (r(a).number() as u32), xb).unwrap(), ip, &mut b);
                    }
                    5 => {
                        enc1(Instruction::with2(Code::Movups_xmmm128_xmm, mem, xa).unwrap(), ip, &mut b);
                    }
                    _ => {
                        enc1(Instruction::with2(Code::Movups_xmm_xmmm128, xa, mem).unwrap(), ip, &mut b);
                    }
                }
            }
        }
        assert!(b.len() <= SLOT as usize, "slot overflow: {:?}", pi);
        b.resize(SLOT as usize, 0x90);
        img.extend_from_slice(&b);
    }
    img
}

#[derive(Clone, Debug)]
pub struct ProgOpts {
    pub max_len: u64,
    /// weights: nop, movimm, alu, aluimm, incdec, jcc, jmp, jmpreg, jrcxz, call, callreg, ret, push, pop, syscall, cld,
    /// then (stack programs only) storersp, loadrsp, learsp, addrsp, pushimm, push16, pop16
    pub w: [u32; 16],
    pub w_stack: [u32; 7],
    /// movreg, jmpr, callr, xmm
    pub w_extra: [u32; 4],
    /// allow branch targets at the end address / past it
    pub end_targets: bool,
    /// allow backward branches
    pub backward: bool,
}

impl ProgOpts {
    pub fn straight() -> ProgOpts {
        ProgOpts { max_len: 30, w: [8, 12, 12, 8, 6, 10, 6, 3, 2, 5, 2, 3, 3, 3, 0, 1], w_stack: [0; 7], w_extra: [0; 4], end_targets: true, backward: true }
    }
    /// stack-centred programs for C04: pushes/pops/calls/returns mixed with RSP-relative accesses
    pub fn stacky() -> ProgOpts {
        ProgOpts { max_len: 14, w: [2, 6, 3, 2, 1, 3, 2, 1, 0, 10, 4, 10, 14, 14, 0, 0], w_stack: [10, 10, 3, 5, 4, 3, 3], w_extra: [0; 4], end_targets: false, backward: false }
    }
    pub fn branchy() -> ProgOpts {
        ProgOpts { max_len: 28, w: [3, 5, 8, 6, 3, 22, 10, 6, 3, 12, 6, 12, 1, 1, 0, 0], w_stack: [0; 7], w_extra: [0; 4], end_targets: true, backward: true }
    }
}

/// Generate a program from one tape row per slot (rows[0] is the header row and is skipped by callers).
pub fn gen_slot(t: &mut Tape, i: usize, n: usize, o: &ProgOpts) -> PI {
    let mut w: Vec<u32> = o.w.to_vec();
    w.extend_from_slice(&o.w_stack);
    w.extend_from_slice(&o.w_extra);
    let kind = t.weighted(&w);
    let reg = |t: &mut Tape| t.below(REGS.len() as u64) as u8;
    let target = |t: &mut Tape| -> usize {
        // mostly forward and near, sometimes backward, sometimes the end / past it
        match t.below(10) {
            0 | 1 | 2 | 3 | 4 => (i + 1 + t.below(4) as usize).min(n),
            5 => (i + 1 + t.below(n as u64 + 1) as usize).min(n),
            6 | 7 if o.backward => i.saturating_sub(t.below(4) as usize),
            8 if o.end_targets => n,
            9 if o.end_targets => n + 1 + t.below(3) as usize,
            _ => (i + 1).min(n),
        }
    };
    match kind {
        0 => PI::Nop,
        1 => PI::MovImm { r: reg(t), imm: t.val64() },
        2 => PI::Alu { op: t.below(6) as u8, a: reg(t), b: reg(t) },
        3 => PI::AluImm { op: t.below(5) as u8, a: reg(t), imm: t.raw() as i8 },
        4 => PI::IncDec { dec: t.bool(), r: reg(t) },
        5 => PI::Jcc { cc: t.below(16) as u8, to: target(t), short: t.bool() },
        6 => PI::Jmp { to: target(t), short: t.bool() },
        7 => PI::JmpReg { r: reg(t), to: target(t) },
        8 => PI::Jrcxz { to: (i + 1 + t.below(5) as usize).min(n) },
        9 => PI::Call { to: target(t) },
        10 => PI::CallReg { r: reg(t), to: target(t) },
        11 => PI::Ret,
        12 => PI::Push { r: reg(t) },
        13 => PI::Pop { r: reg(t) },
        14 => PI::Syscall,
        15 => PI::Cld,
        16 => PI::StoreRsp { d: (8 * (t.below(9) as i64 - 2)) as i8, r: reg(t) },
        17 => PI::LoadRsp { d: (8 * (t.below(9) as i64 - 2)) as i8, r: reg(t) },
        18 => PI::LeaRsp { d: t.raw() as i8, r: reg(t) },
        19 => PI::AddRsp { imm: (8 * (t.below(7) as i64 - 3)) as i8 },
        20 => PI::PushImm { imm: t.val64() as i32 },
        21 => PI::Push16 { r: reg(t) },
        22 => PI::Pop16 { r: reg(t) },
        23 => PI::MovReg { a: reg(t), b: reg(t) },
        24 => PI::JmpR { r: reg(t) },
        25 => PI::CallR { r: reg(t) },
        _ => PI::Xmm { op: t.below(7) as u8, a: t.below(8) as u8, b: t.below(8) as u8 },
    }
}

// ---------------------------------------------------------------------------------------------
// scripted hooks without leaking closures: 32 distinct 'static fns reading a thread-local script

use ax_x86::auto::generated::SupportedMnemonic;
use ax_x86::axecutor::Axecutor;
use ax_x86::state::hooks::{HookResult, RustCallbackFunction};
use std::cell::RefCell;

#[derive(Clone, Copy, Debug, Serialize, Deserialize, PartialEq, Eq)]
pub enum Outcome {
    Unhandled,
    Handled,
    StopUnhandled,
    StopHandled,
    Fail,
    /// calls stop() and then returns an error
    StopFail,
}

#[derive(Clone, Debug, Default)]
pub struct HookScript {
    /// per hook id: outcomes by invocation number (last one repeats), optional register write
    pub outcomes: Vec<Vec<Outcome>>,
    pub modify: Vec<Option<(u8, u64)>>,
    /// try to register another hook from inside (hook id that does so)
    pub register_inside: Option<usize>,
}

#[derive(Clone, Debug, PartialEq)]
pub struct Event {
    pub hook: usize,
    pub mnemonic: u32,
    pub rip: u64,
    pub executed: u64,
    pub gpr: [u64; 16],
    pub rflags: u64,
    pub outcome: Outcome,
    pub inner_registration_refused: Option<bool>,
}

thread_local! {
    pub static SCRIPT: RefCell<HookScript> = RefCell::new(HookScript::default());
    pub static EVENTS: RefCell<Vec<Event>> = RefCell::new(vec![]);
    static COUNTS: RefCell<Vec<usize>> = RefCell::new(vec![0; 64]);
}

pub fn reset_hooks(script: HookScript) {
    SCRIPT.with(|s| *s.borrow_mut() = script);
    EVENTS.with(|e| e.borrow_mut().clear());
    COUNTS.with(|c| c.borrow_mut().iter_mut().for_each(|x| *x = 0));
}

pub fn take_events() -> Vec<Event> {
    EVENTS.with(|e| std::mem::take(&mut *e.borrow_mut()))
}
pub fn events_len() -> usize {
    EVENTS.with(|e| e.borrow().len())
}

fn hook_body(id: usize, ax: &mut Axecutor, m: SupportedMnemonic) -> Result<HookResult, Box<dyn std::error::Error>> {
    let n = COUNTS.with(|c| {
        let mut c = c.borrow_mut();
        let n = c[id];
        c[id] += 1;
        n
    });
    let (outcome, modify, reg_inside) = SCRIPT.with(|s| {
        let s = s.borrow();
        let o = s.outcomes.get(id).map(|v| if v.is_empty() { Outcome::Unhandled } else { v[n.min(v.len() - 1)] }).unwrap_or(Outcome::Unhandled);
        (o, s.modify.get(id).copied().flatten(), s.register_inside == Some(id))
    });
    let mut gpr = [0u64; 16];
    for i in 0..16 {
        gpr[i] = ax.reg_read_64(crate::mach::SR64[i]).unwrap();
    }
    let mut inner = None;
    if reg_inside {
        // both ways of registering: a plain hook and a built-in syscall handler
        let r1 = ax.hook_before_mnemonic_native(SupportedMnemonic::Nop, hook_fn(63)).is_err();
        let r2 = ax.handle_syscalls(vec![ax_x86::helpers::syscalls::Syscall::Brk]).is_err();
        inner = Some(r1 && r2);
    }
    EVENTS.with(|e| {
        e.borrow_mut().push(Event {
            hook: id,
            mnemonic: m as u32,
            rip: ax.reg_read_64(ax_x86::state::registers::SupportedRegister::RIP).unwrap(),
            executed: ax.verif_executed(),
            gpr,
            rflags: ax.verif_rflags(),
            outcome,
            inner_registration_refused: inner,
        })
    });
    if let Some((r, v)) = modify {
        if r == 16 {
            ax.reg_write_64(ax_x86::state::registers::SupportedRegister::RIP, v).unwrap();
        } else {
            ax.reg_write_64(crate::mach::SR64[r as usize % 16], v).unwrap();
        }
    }
    match outcome {
        Outcome::Unhandled => Ok(HookResult::Unhandled),
        Outcome::Handled => Ok(HookResult::Handled),
        Outcome::StopUnhandled => {
            ax.stop();
            Ok(HookResult::Unhandled)
        }
        Outcome::StopHandled => {
            ax.stop();
            Ok(HookResult::Handled)
        }
        Outcome::Fail => Err(format!("scripted hook {} fails", id).into()),
        Outcome::StopFail => {
            ax.stop();
            Err(format!("scripted hook {} stops and fails", id).into())
        }
    }
}

fn hook_n<const ID: usize>(ax: &mut Axecutor, m: SupportedMnemonic) -> Result<HookResult, Box<dyn std::error::Error>> {
    hook_body(ID, ax, m)
}

macro_rules! hooks_match {
    ($i:expr; $($n:literal),*) => { match $i { $( $n => &hook_n::<$n> as &'static RustCallbackFunction, )* _ => &hook_n::<63> as &'static RustCallbackFunction } };
}

/// The i-th scripted hook (0..64) as a 'static callback.
pub fn hook_fn(i: usize) -> &'static RustCallbackFunction {
    hooks_match!(i; 0, 1, 2, 3, 4, 5, 6, 7, 8, 9, 10, 11, 12, 13, 14, 15, 16, 17, 18, 19, 20, 21, 22, 23, 24, 25, 26, 27, 28, 29, 30, 31, 32, 33, 34, 35, 36, 37, 38, 39, 40, 41, 42, 43, 44, 45, 46, 47, 48, 49, 50, 51, 52, 53, 54, 55, 56, 57, 58, 59, 60, 61, 62)
}
