//! Known findings (DESIGN 3). Read-only at run time. A `known` entry suppresses exactly the
//! signatures it lists (a trailing `*` makes the entry a prefix match); a `fixed` entry suppresses
//! nothing and exists for the record.
use serde::Deserialize;

#[derive(Deserialize, Debug, Clone)]
pub struct Entry {
    pub status: String,
    #[serde(default)]
    pub id: String,
    pub property: String,
    #[serde(default)]
    pub signatures: Vec<String>,
    #[serde(default)]
    pub what: String,
    #[serde(default)]
    pub commit: String,
    #[serde(default)]
    pub replay: String,
}

#[derive(Deserialize, Debug, Default)]
pub struct KnownFindings {
    #[serde(default)]
    pub findings: Vec<Entry>,
}

impl KnownFindings {
    pub fn load() -> KnownFindings {
        let path = std::env::var("AXVERIF_KNOWN_FINDINGS").unwrap_or_else(|_| "/verif/known_findings.json".to_string());
        match std::fs::read_to_string(&path) {
            Ok(t) => serde_json::from_str(&t).unwrap_or_else(|e| panic!("known_findings.json unreadable: {}", e)),
            Err(_) => KnownFindings::default(),
        }
    }
    pub fn match_sig(&self, property: &str, sig: &str) -> Option<String> {
        for e in &self.findings {
            if e.status != "known" || e.property != property {
                continue;
            }
            for s in &e.signatures {
                let hit = if let Some(pre) = s.strip_suffix('*') { sig.starts_with(pre) } else { sig == s };
                if hit {
                    return Some(e.id.clone());
                }
            }
        }
        None
    }
    pub fn is_listed_known(&self, property: &str, id: &str) -> bool {
        self.findings.iter().any(|e| e.status == "known" && e.property == property && e.id == id)
    }
    pub fn listed_known(&self, property: &str) -> Vec<Entry> {
        self.findings.iter().filter(|e| e.status == "known" && e.property == property).cloned().collect()
    }
}
