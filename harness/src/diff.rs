//! The differential executor: one `NCase` on the emulator and on the host CPU, compared
//! component by component. Properties C01–C06 interpret the `Diff`; each owns some components.
use crate::insn::{self, Form};
use crate::mach::{self, NCase, GPR_NAMES};
use crate::native::*;
use crate::util::{self, block_on, PanicInfo};
use iced_x86::*;
use std::collections::HashSet;

pub const CF: u64 = 1;
pub const PF: u64 = 4;
pub const AF: u64 = 0x10;
pub const ZF: u64 = 0x40;
pub const SF: u64 = 0x80;
pub const DF: u64 = 0x400;
pub const OF: u64 = 0x800;
pub const ALL_FLAGS: u64 = CF | PF | AF | ZF | SF | DF | OF;

pub fn flag_name(b: u64) -> &'static str {
    match b {
        CF => "CF",
        PF => "PF",
        AF => "AF",
        ZF => "ZF",
        SF => "SF",
        DF => "DF",
        OF => "OF",
        _ => "?",
    }
}

#[derive(Debug, Clone)]
pub enum Emu {
    Ok(bool),
    Err(String),
    Panic(PanicInfo),
}

#[derive(Debug, Clone, PartialEq, Eq)]
pub enum Comp {
    Gpr(usize),
    Xmm(usize),
    Mem(u64),
    Rip,
    Flag(u64, bool), // bit, stale (emulator kept the incoming value)
    Extra(String),
}

pub struct Diff {
    pub ins: Instruction,
    pub valid: bool,
    pub emu: Emu,
    pub emu_regs: Option<Regs>,
    pub native: Option<Outcome>,
    pub skip_native: Option<&'static str>,
    pub mism: Vec<(Comp, String)>,
    /// mask of flags compared (defined or architecturally unaffected)
    pub flag_mask: u64,
    /// registers the instruction writes according to iced (for dest/other labelling)
    pub written_gprs: u32,
    /// memory accesses (address, size, is_write) per iced, with this case's register values
    pub accesses: Vec<(u64, u64, bool, bool)>,
    /// first address at which an emulator area differs from its initial image after a successful step
    pub emu_mem_changed: Option<u64>,
    /// after a *failed* emulator step: first arena address whose byte changed, and the first GPR/XMM
    /// register that changed (a faulting instruction changes nothing on the CPU)
    pub err_changed: (Option<u64>, Option<String>),
}

pub struct Engine {
    pub native: Native,
    pub forms: Vec<Form>,
    pub ungenerated: Vec<String>,
    pub allow: HashSet<Code>,
    pub floor: HashSet<String>,
    pub info: InstructionInfoFactory,
}

fn rflags_bits_to_mask(b: u32) -> u64 {
    let mut m = 0;
    if b & RflagsBits::CF != 0 {
        m |= CF;
    }
    if b & RflagsBits::PF != 0 {
        m |= PF;
    }
    if b & RflagsBits::AF != 0 {
        m |= AF;
    }
    if b & RflagsBits::ZF != 0 {
        m |= ZF;
    }
    if b & RflagsBits::SF != 0 {
        m |= SF;
    }
    if b & RflagsBits::DF != 0 {
        m |= DF;
    }
    if b & RflagsBits::OF != 0 {
        m |= OF;
    }
    m
}

/// Flags on which the emulator must equal the CPU: everything the architecture defines or leaves
/// unaffected for *this* instruction instance (SDM; shift rules depend on the masked count).
/// AF is compared only where it is unaffected (README: AF is not computed; C02 lists CF PF ZF SF OF DF).
pub fn compared_flags(ins: &Instruction, pre: &Regs) -> u64 {
    let mut mask = ALL_FLAGS;
    let modified = rflags_bits_to_mask(ins.rflags_modified());
    let undefined = rflags_bits_to_mask(ins.rflags_undefined());
    match ins.mnemonic() {
        Mnemonic::Shl | Mnemonic::Shr | Mnemonic::Sar | Mnemonic::Sal => {
            let w: u32 = match ins.op0_kind() {
                OpKind::Register => ins.op0_register().size() as u32 * 8,
                _ => ins.memory_size().size() as u32 * 8,
            };
            let raw = match ins.op1_kind() {
                OpKind::Immediate8 => ins.immediate8() as u32,
                OpKind::Register => (pre.gpr[1] & 0xff) as u32,
                _ => 1,
            };
            let cnt = raw & if w == 64 { 63 } else { 31 };
            if cnt == 0 {
                return ALL_FLAGS; // nothing is affected
            }
            mask &= !AF;
            if cnt != 1 {
                mask &= !OF;
            }
            if cnt >= w {
                mask &= !CF;
            }
            mask
        }
        _ => {
            mask &= !undefined;
            if modified & AF != 0 {
                mask &= !AF;
            }
            mask
        }
    }
}

impl Engine {
    pub unsafe fn new() -> Engine {
        let native = Native::new();
        let (forms, ungenerated) = insn::candidate_forms();
        let allow = forms.iter().map(|f| f.code).collect();
        let floor = insn::load_floor().into_iter().collect();
        Engine { native, forms, ungenerated, allow, floor, info: InstructionInfoFactory::new() }
    }

    /// Emulator-only engine: no arenas are mapped and no signal handler is installed; `run` must be
    /// called with `want_native = false`.
    pub fn new_emu_only() -> Engine {
        let (forms, ungenerated) = insn::candidate_forms();
        let allow = forms.iter().map(|f| f.code).collect();
        let floor = insn::load_floor().into_iter().collect();
        Engine { native: Native::none(), forms, ungenerated, allow, floor, info: InstructionInfoFactory::new() }
    }

    pub fn form_indices(&self, pred: impl Fn(&Form) -> bool) -> Vec<usize> {
        self.forms.iter().enumerate().filter(|(_, f)| pred(f)).map(|(i, _)| i).collect()
    }

    /// Decode what the fetch sees at `rip`: the case's bytes followed by the 0xCC filler, cut at
    /// the end of the code arena. `valid` = decodes to an instruction.
    pub fn decode(&self, c: &NCase) -> (Instruction, bool) {
        let mut bytes = c.code_bytes();
        bytes.resize(15.max(bytes.len()), 0xcc);
        let room = (CODE_BASE + CODE_LEN as u64).saturating_sub(c.rip) as usize;
        bytes.truncate(room.min(15));
        let mut d = Decoder::with_ip(64, &bytes, c.rip, DecoderOptions::NONE);
        let ins = d.decode();
        let valid = !ins.is_invalid() && c.rip >= CODE_BASE && room > 0;
        (ins, valid)
    }

    /// Memory accesses of `ins` from state `c` (address, size, writes, reads), via iced's operand
    /// metadata and the harness's own register file (never the emulator's address computation).
    pub fn accesses(&mut self, ins: &Instruction, c: &NCase) -> Vec<(u64, u64, bool, bool)> {
        let mut out = vec![];
        let info = self.info.info(ins);
        for um in info.used_memory() {
            let addr = um.virtual_address(0, |reg, _i, _sz| match reg {
                Register::FS => Some(c.fs),
                Register::GS => Some(c.gs),
                Register::ES | Register::CS | Register::SS | Register::DS => Some(0),
                Register::RIP => Some(ins.next_ip()),
                Register::EIP => Some(ins.next_ip() & 0xffff_ffff),
                r if r.is_gpr() => {
                    let full = c.gpr[r.full_register().number()];
                    Some(match r.size() {
                        8 => full,
                        4 => full & 0xffff_ffff,
                        2 => full & 0xffff,
                        _ => {
                            if matches!(r, Register::AH | Register::CH | Register::DH | Register::BH) {
                                (full >> 8) & 0xff
                            } else {
                                full & 0xff
                            }
                        }
                    })
                }
                _ => None,
            });
            let size = um.memory_size().size() as u64;
            let (w, r) = match um.access() {
                OpAccess::Read | OpAccess::CondRead => (false, true),
                OpAccess::Write | OpAccess::CondWrite => (true, false),
                OpAccess::ReadWrite | OpAccess::ReadCondWrite => (true, true),
                _ => (false, false), // NoMemAccess (LEA, NOP)
            };
            if let Some(a) = addr {
                if w || r {
                    out.push((a, size, w, r));
                }
            }
        }
        out
    }

    /// Run the case on both sides.
    pub fn run(&mut self, c: &NCase, want_native: bool) -> Diff {
        let (ins, valid) = self.decode(c);
        let images = mach::arena_images(c);
        let pre = c.regs();
        let accesses = if valid { self.accesses(&ins, c) } else { vec![] };
        let mut written_gprs = 0u32;
        if valid {
            let info = self.info.info(&ins);
            for ur in info.used_registers() {
                if matches!(ur.access(), OpAccess::Write | OpAccess::CondWrite | OpAccess::ReadWrite | OpAccess::ReadCondWrite) && ur.register().is_gpr() {
                    written_gprs |= 1 << ur.register().full_register().number();
                }
            }
        }

        // ---- emulator
        let mut axm = None;
        let emu = match util::catch(|| {
            let mut ax = mach::build_ax(c, &images).map_err(|e| format!("machine construction failed: {}", e))?;
            mach::run_prelude(&mut ax, c, &images);
            if ax.verif_finished() {
                return Err(format!("the prelude {:?} ended the run (rip {:#x}, layout {}, code {})", c.pre, c.rip, c.layout, c.code));
            }
            let before_meta = ax.verif_area_meta();
            let executed_before = ax.verif_executed();
            let r = block_on(ax.step()).map_err(|e| e.to_string());
            Ok::<_, String>((ax, (before_meta, executed_before), r))
        }) {
            Ok(Ok((ax, meta, r))) => {
                axm = Some((ax, meta));
                match r {
                    Ok(b) => Emu::Ok(b),
                    Err(e) => Emu::Err(e),
                }
            }
            Ok(Err(e)) => Emu::Err(format!("HARNESS: {}", e)),
            Err(p) => Emu::Panic(p),
        };

        // ---- native
        let mut skip_native = None;
        if !want_native {
            skip_native = Some("not-requested");
        } else if !valid {
            skip_native = Some("invalid-encoding");
        } else if ins.len() != c.code_bytes().len() {
            skip_native = Some("bytes-longer-than-instruction");
        } else if !self.allow.contains(&ins.code()) || !insn::mnemonic_supported(ins.mnemonic()) {
            skip_native = Some("form-not-allowlisted");
        } else if insn::class_of(ins.mnemonic()) == insn::Class::Os {
            skip_native = Some("os-interface");
        } else if insn::vendor_divergent(ins.code()) {
            skip_native = Some("vendor-divergent-o16-branch");
        } else if ins.segment_prefix() == Register::FS || ins.memory_segment() == Register::FS {
            skip_native = Some("fs-relative");
        } else if accesses.iter().any(|(a, s, _, _)| self.native.touches_host(*a, *s)) {
            skip_native = Some("would-touch-host-mapping");
        } else if (c.gs >> 47) != 0 && (c.gs >> 47) != 0x1ffff {
            skip_native = Some("non-canonical-gs-base");
        }
        let native = if skip_native.is_none() {
            mach::load_native(&self.native, &images);
            Some(self.native.step(&pre))
        } else {
            None
        };

        // ---- compare
        let mut mism = vec![];
        let flag_mask = if valid { compared_flags(&ins, &pre) } else { 0 };
        let mut emu_regs = None;
        let mut emu_mem_changed: Option<u64> = None;
        if let (Some((ax, (meta_before, executed_before))), Emu::Ok(_)) = (&axm, &emu) {
            let er = mach::ax_regs(ax);
            emu_regs = Some(er);
            if let Some(n) = &native {
                if n.completed() {
                    for i in 0..16 {
                        if er.gpr[i] != n.regs.gpr[i] {
                            mism.push((Comp::Gpr(i), format!("{}: emulator {:#x}, cpu {:#x} (before {:#x})", GPR_NAMES[i], er.gpr[i], n.regs.gpr[i], pre.gpr[i])));
                        }
                    }
                    for i in 0..16 {
                        if er.xmm[i] != n.regs.xmm[i] {
                            mism.push((Comp::Xmm(i), format!("xmm{}: emulator {:x?}, cpu {:x?}", i, er.xmm[i], n.regs.xmm[i])));
                        }
                    }
                    if er.rip != n.regs.rip {
                        mism.push((Comp::Rip, format!("rip: emulator {:#x}, cpu {:#x} (next ip {:#x})", er.rip, n.regs.rip, ins.next_ip())));
                    }
                    let d = (er.rflags ^ n.regs.rflags) & flag_mask;
                    for b in [CF, PF, AF, ZF, SF, DF, OF] {
                        if d & b != 0 {
                            let stale = (er.rflags & b) == (pre.rflags & b);
                            mism.push((Comp::Flag(b, stale), format!("{}: emulator {}, cpu {} (incoming {})", flag_name(b), (er.rflags & b != 0) as u8, (n.regs.rflags & b != 0) as u8, (pre.rflags & b != 0) as u8)));
                        }
                    }
                    for d in ARENAS.iter() {
                        let nm = self.native.read_arena(d.kind);
                        match ax.verif_area_data(d.base) {
                            Some(em) => {
                                if em != nm {
                                    let off = em.iter().zip(nm.iter()).position(|(a, b)| a != b).unwrap_or(0);
                                    let init = &images.iter().find(|(k, _)| *k == d.kind).unwrap().1;
                                    mism.push((
                                        Comp::Mem(d.base + off as u64),
                                        format!(
                                            "memory at {:#x}: emulator {:02x?}, cpu {:02x?} (before {:02x?})",
                                            d.base + off as u64,
                                            &em[off..(off + 16).min(em.len())],
                                            &nm[off..(off + 16).min(nm.len())],
                                            &init[off..(off + 16).min(init.len())]
                                        ),
                                    ));
                                }
                            }
                            None => mism.push((Comp::Extra("area-vanished".into()), format!("area {:#x} missing after step", d.base))),
                        }
                    }
                }
            }
            for (k, img) in images.iter() {
                let d = ARENAS.iter().find(|d| d.kind == *k).unwrap();
                if let Some(em) = ax.verif_area_data(d.base) {
                    if em != img.as_slice() && emu_mem_changed.is_none() {
                        let off = em.iter().zip(img.iter()).position(|(a, b)| a != b).unwrap_or(0);
                        emu_mem_changed = Some(d.base + off as u64);
                    }
                }
            }
            // emulator-side "nothing else changes"
            if ax.read_fs() != c.fs {
                mism.push((Comp::Extra("fs-base-changed".into()), format!("fs base {:#x} -> {:#x}", c.fs, ax.read_fs())));
            }
            if ax.read_gs() != c.gs {
                mism.push((Comp::Extra("gs-base-changed".into()), format!("gs base {:#x} -> {:#x}", c.gs, ax.read_gs())));
            }
            if &ax.verif_area_meta() != meta_before {
                mism.push((Comp::Extra("area-list-changed".into()), format!("areas {:x?} -> {:x?}", meta_before, ax.verif_area_meta())));
            }
            if ax.verif_executed() != executed_before + 1 {
                mism.push((Comp::Extra("executed-count".into()), format!("executed count {} -> {} over one step", executed_before, ax.verif_executed())));
            }
        }
        let mut err_changed: (Option<u64>, Option<String>) = (None, None);
        if let (Some((ax, _)), Emu::Err(_)) = (&axm, &emu) {
            for (k, img) in images.iter() {
                let d = ARENAS.iter().find(|d| d.kind == *k).unwrap();
                if let Some(em) = ax.verif_area_data(d.base) {
                    if em != img.as_slice() && err_changed.0.is_none() {
                        let off = em.iter().zip(img.iter()).position(|(a, b)| a != b).unwrap_or(0);
                        err_changed.0 = Some(d.base + off as u64);
                    }
                }
            }
            let er = mach::ax_regs(ax);
            for i in 0..16 {
                if er.gpr[i] != pre.gpr[i] && err_changed.1.is_none() {
                    err_changed.1 = Some(format!("{} {:#x} -> {:#x}", GPR_NAMES[i], pre.gpr[i], er.gpr[i]));
                }
                if er.xmm[i] != pre.xmm[i] && err_changed.1.is_none() {
                    err_changed.1 = Some(format!("xmm{}", i));
                }
            }
        }
        Diff { ins, valid, emu, emu_regs, native, skip_native, mism, flag_mask, written_gprs, accesses, emu_mem_changed, err_changed }
    }

    pub fn render(&self, c: &NCase) -> serde_json::Value {
        let (ins, valid) = self.decode(c);
        serde_json::json!({
            "code": c.code,
            "disasm": if valid { format!("{}", ins) } else { "<invalid>".to_string() },
            "form": if valid { format!("{:?}", ins.code()) } else { "INVALID".to_string() },
            "rip": format!("{:#x}", c.rip),
            "rflags_in": format!("{:#x}", c.rflags),
            "gpr": c.gpr.iter().enumerate().map(|(i, v)| format!("{}={:#x}", GPR_NAMES[i], v)).collect::<Vec<_>>().join(" "),
            "gs": format!("{:#x}", c.gs),
            "fs": format!("{:#x}", c.fs),
            "mem_seed": c.mem_seed,
            "patches": c.patches,
            "note": c.note,
        })
    }
}

pub fn emu_err_first_line(e: &str) -> String {
    // the message proper is the second block (the first is the "executing instruction …" detail)
    e.lines().find(|l| !l.starts_with("executing instruction") && !l.trim().is_empty()).unwrap_or("").chars().take(100).collect()
}
