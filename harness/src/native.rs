//! Native single-step oracle (DESIGN 2.2 / Appendix A): run exactly one guest instruction on the
//! host CPU from an arbitrary register/flag/memory state by swapping the guest context into a
//! signal ucontext with TF set, and capture the result in the SIGTRAP / fault handler.
use libc::*;
use std::ptr;

pub const CODE_BASE: u64 = 0x2000_0000;
pub const CODE_LEN: usize = 0x1000;
pub const RW_BASE: u64 = 0x1000_0000;
pub const RW_LEN: usize = 0x2000;
pub const RO_BASE: u64 = 0x1800_0000;
pub const RO_LEN: usize = 0x1000;
/// two pages around 0x3000_0000, so that a stack can straddle a 64 KiB boundary (carries out of SP)
pub const STK_BASE: u64 = 0x2fff_f000;
pub const STK_LEN: usize = 0x2000;

#[derive(Clone, Copy, Debug, PartialEq, Eq)]
pub enum ArenaKind {
    Code,
    Rw,
    Ro,
    Stack,
}

#[derive(Clone, Copy, Debug)]
pub struct ArenaDesc {
    pub kind: ArenaKind,
    pub base: u64,
    pub len: usize,
    /// emulator permission mask (R=1, W=2, X=4)
    pub prot: u32,
}

pub const ARENAS: [ArenaDesc; 4] = [
    ArenaDesc { kind: ArenaKind::Code, base: CODE_BASE, len: CODE_LEN, prot: 5 },
    ArenaDesc { kind: ArenaKind::Rw, base: RW_BASE, len: RW_LEN, prot: 3 },
    ArenaDesc { kind: ArenaKind::Ro, base: RO_BASE, len: RO_LEN, prot: 1 },
    ArenaDesc { kind: ArenaKind::Stack, base: STK_BASE, len: STK_LEN, prot: 3 },
];

pub fn arena_of(addr: u64) -> Option<&'static ArenaDesc> {
    ARENAS.iter().find(|a| addr >= a.base && addr < a.base + a.len as u64)
}

#[repr(C)]
#[derive(Clone, Copy, Debug, PartialEq, Eq)]
pub struct Regs {
    /// x86 encoding order: rax rcx rdx rbx rsp rbp rsi rdi r8..r15
    pub gpr: [u64; 16],
    pub rip: u64,
    pub rflags: u64,
    pub xmm: [[u64; 2]; 16],
    pub gs_base: u64,
}
impl Default for Regs {
    fn default() -> Self {
        Regs { gpr: [0; 16], rip: 0, rflags: 0, xmm: [[0; 2]; 16], gs_base: 0 }
    }
}

#[derive(Clone, Copy, Debug)]
pub struct Outcome {
    pub regs: Regs,
    pub signal: i32,
    pub si_code: i32,
    pub si_addr: u64,
}
impl Outcome {
    pub fn completed(&self) -> bool {
        self.signal == SIGTRAP
    }
}

/// Status flags that are loaded into / compared from the guest: CF PF AF ZF SF DF OF.
pub const GUEST_FLAG_MASK: u64 = 0xcd5;

const ZERO_REGS: Regs = Regs { gpr: [0; 16], rip: 0, rflags: 0, xmm: [[0; 2]; 16], gs_base: 0 };
static mut GUEST_IN: Regs = ZERO_REGS;
static mut OUT: Outcome = Outcome { regs: ZERO_REGS, signal: 0, si_code: 0, si_addr: 0 };
static mut HOST_GREGS: [greg_t; 23] = [0; 23];
static mut HOST_FP: [u8; 512] = [0; 512];
static mut IN_GUEST: bool = false;

const G: [usize; 16] = [
    REG_RAX as usize,
    REG_RCX as usize,
    REG_RDX as usize,
    REG_RBX as usize,
    REG_RSP as usize,
    REG_RBP as usize,
    REG_RSI as usize,
    REG_RDI as usize,
    REG_R8 as usize,
    REG_R9 as usize,
    REG_R10 as usize,
    REG_R11 as usize,
    REG_R12 as usize,
    REG_R13 as usize,
    REG_R14 as usize,
    REG_R15 as usize,
];

#[inline(always)]
unsafe fn wrgsbase(v: u64) {
    core::arch::asm!("wrgsbase {0}", in(reg) v);
}

unsafe extern "C" fn on_enter(_sig: c_int, _info: *mut siginfo_t, ctx: *mut c_void) {
    let uc = ctx as *mut ucontext_t;
    let mc = &mut (*uc).uc_mcontext;
    HOST_GREGS = mc.gregs;
    ptr::copy_nonoverlapping(mc.fpregs as *const u8, ptr::addr_of_mut!(HOST_FP) as *mut u8, 512);
    let gin = ptr::addr_of!(GUEST_IN);
    for i in 0..16 {
        mc.gregs[G[i]] = (*gin).gpr[i] as i64;
    }
    mc.gregs[REG_RIP as usize] = (*gin).rip as i64;
    // reserved bit 1 + IF stay set; TF makes the CPU trap after exactly one instruction
    mc.gregs[REG_EFL as usize] = (((*gin).rflags & GUEST_FLAG_MASK) | 0x202 | 0x100) as i64;
    let fp = mc.fpregs;
    for i in 0..16 {
        let e = &mut (*fp)._xmm[i].element;
        let v = (*gin).xmm[i];
        e[0] = v[0] as u32;
        e[1] = (v[0] >> 32) as u32;
        e[2] = v[1] as u32;
        e[3] = (v[1] >> 32) as u32;
    }
    wrgsbase((*gin).gs_base);
    IN_GUEST = true;
}

unsafe extern "C" fn on_exit(sig: c_int, info: *mut siginfo_t, ctx: *mut c_void) {
    if !IN_GUEST {
        // genuine host crash: fall back to the default action
        signal(sig, SIG_DFL);
        return;
    }
    IN_GUEST = false;
    wrgsbase(0);
    let uc = ctx as *mut ucontext_t;
    let mc = &mut (*uc).uc_mcontext;
    let out = ptr::addr_of_mut!(OUT);
    for i in 0..16 {
        (*out).regs.gpr[i] = mc.gregs[G[i]] as u64;
    }
    (*out).regs.rip = mc.gregs[REG_RIP as usize] as u64;
    (*out).regs.rflags = mc.gregs[REG_EFL as usize] as u64;
    let fp = mc.fpregs;
    for i in 0..16 {
        let e = &(*fp)._xmm[i].element;
        (*out).regs.xmm[i] = [e[0] as u64 | ((e[1] as u64) << 32), e[2] as u64 | ((e[3] as u64) << 32)];
    }
    (*out).signal = sig;
    (*out).si_code = (*info).si_code;
    (*out).si_addr = (*info).si_addr() as u64;
    mc.gregs = HOST_GREGS;
    ptr::copy_nonoverlapping(ptr::addr_of!(HOST_FP) as *const u8, mc.fpregs as *mut u8, 512);
}

pub struct Arena {
    pub desc: ArenaDesc,
    /// host-side RW alias of the same pages
    pub alias: *mut u8,
}

pub struct Native {
    pub arenas: Vec<Arena>,
    /// host mappings other than the guest arenas (seat belt, DESIGN 2.2)
    pub host_maps: Vec<(u64, u64)>,
}

unsafe fn map_fixed_anon(addr: u64, len: usize, prot: c_int) {
    let p = mmap(addr as *mut c_void, len, prot, MAP_PRIVATE | MAP_ANONYMOUS | MAP_FIXED_NOREPLACE, -1, 0);
    assert_eq!(p as u64, addr, "mmap fixed {:#x} failed (errno {})", addr, *__errno_location());
}

impl Native {
    /// Placeholder without arenas or signal handlers, for emulator-only use (C19, fuzz targets).
    pub fn none() -> Native {
        Native { arenas: vec![], host_maps: vec![] }
    }

    /// Must be called once per (single-threaded) worker process.
    pub unsafe fn new() -> Native {
        // alternate signal stack + handlers
        let ss = stack_t {
            ss_sp: mmap(ptr::null_mut(), 1 << 16, PROT_READ | PROT_WRITE, MAP_PRIVATE | MAP_ANONYMOUS, -1, 0),
            ss_flags: 0,
            ss_size: 1 << 16,
        };
        assert_eq!(sigaltstack(&ss, ptr::null_mut()), 0);
        let mut sa: sigaction = std::mem::zeroed();
        sa.sa_flags = SA_SIGINFO | SA_ONSTACK | SA_NODEFER;
        sigfillset(&mut sa.sa_mask);
        sa.sa_sigaction = on_enter as usize;
        assert_eq!(sigaction(SIGUSR1, &sa, ptr::null_mut()), 0);
        sa.sa_sigaction = on_exit as usize;
        for s in [SIGTRAP, SIGSEGV, SIGBUS, SIGFPE, SIGILL] {
            assert_eq!(sigaction(s, &sa, ptr::null_mut()), 0);
        }
        let mut arenas = vec![];
        for d in ARENAS.iter() {
            let name = b"axverif-arena\0";
            let fd = memfd_create(name.as_ptr() as *const c_char, 0);
            assert!(fd >= 0, "memfd_create failed");
            assert_eq!(ftruncate(fd, d.len as off_t), 0);
            let prot = match d.kind {
                ArenaKind::Code => PROT_READ | PROT_EXEC,
                ArenaKind::Ro => PROT_READ,
                _ => PROT_READ | PROT_WRITE,
            };
            map_fixed_anon(d.base - 0x1000, 0x1000, PROT_NONE);
            let g = mmap(d.base as *mut c_void, d.len, prot, MAP_SHARED | MAP_FIXED_NOREPLACE, fd, 0);
            assert_eq!(g as u64, d.base, "guest arena mmap failed");
            map_fixed_anon(d.base + d.len as u64, 0x1000, PROT_NONE);
            let alias = mmap(ptr::null_mut(), d.len, PROT_READ | PROT_WRITE, MAP_SHARED, fd, 0);
            assert!(alias != MAP_FAILED);
            close(fd);
            arenas.push(Arena { desc: *d, alias: alias as *mut u8 });
        }
        // host mappings (everything in /proc/self/maps that is not a guest arena or its guards)
        let mut host_maps = vec![];
        if let Ok(txt) = std::fs::read_to_string("/proc/self/maps") {
            for l in txt.lines() {
                let range = l.split_whitespace().next().unwrap_or("");
                if let Some((a, b)) = range.split_once('-') {
                    let (a, b) = (u64::from_str_radix(a, 16).unwrap_or(0), u64::from_str_radix(b, 16).unwrap_or(0));
                    let is_guest = ARENAS.iter().any(|d| a >= d.base - 0x1000 && b <= d.base + d.len as u64 + 0x1000);
                    if !is_guest {
                        host_maps.push((a, b));
                    }
                }
            }
        }
        Native { arenas, host_maps }
    }

    pub fn arena(&self, kind: ArenaKind) -> &Arena {
        self.arenas.iter().find(|a| a.desc.kind == kind).unwrap()
    }

    pub fn write_arena(&self, kind: ArenaKind, data: &[u8]) {
        let a = self.arena(kind);
        assert_eq!(data.len(), a.desc.len);
        unsafe { ptr::copy_nonoverlapping(data.as_ptr(), a.alias, data.len()) }
    }

    pub fn read_arena(&self, kind: ArenaKind) -> &[u8] {
        let a = self.arena(kind);
        unsafe { std::slice::from_raw_parts(a.alias, a.desc.len) }
    }

    /// Read guest memory (through the host alias). None if the range is not inside one arena.
    pub fn peek(&self, addr: u64, len: usize) -> Option<Vec<u8>> {
        let a = self.arenas.iter().find(|a| addr >= a.desc.base && addr + len as u64 <= a.desc.base + a.desc.len as u64)?;
        let off = (addr - a.desc.base) as usize;
        Some(unsafe { std::slice::from_raw_parts(a.alias.add(off), len) }.to_vec())
    }

    /// Write guest memory (through the host alias), regardless of the guest-side protection.
    pub fn poke(&self, addr: u64, data: &[u8]) -> bool {
        match self.arenas.iter().find(|a| addr >= a.desc.base && addr + data.len() as u64 <= a.desc.base + a.desc.len as u64) {
            Some(a) => {
                unsafe { ptr::copy_nonoverlapping(data.as_ptr(), a.alias.add((addr - a.desc.base) as usize), data.len()) };
                true
            }
            None => false,
        }
    }

    /// Would an access of `len` bytes at `addr` touch memory that belongs to the host process?
    /// (Kernel-half and non-canonical addresses fault natively without touching anything.)
    pub fn touches_host(&self, addr: u64, len: u64) -> bool {
        let end = addr.wrapping_add(len.max(1));
        if end < addr {
            // wraps around the address space: the low part is page 0 (unmapped), the high part kernel
            return false;
        }
        // entirely inside a guest arena or its guard pages: ours
        if ARENAS.iter().any(|d| addr >= d.base - 0x1000 && end <= d.base + d.len as u64 + 0x1000) {
            return false;
        }
        if self.host_maps.iter().any(|(a, b)| addr < *b && end > *a) {
            return true;
        }
        // kernel half / non-canonical: faults natively without touching anything
        if addr >> 47 != 0 {
            return false;
        }
        // anywhere else in the user half the host may have mapped something *since* the snapshot (allocator
        // arenas, thread stacks): look again — a store through a generated address must never land in the
        // harness's own memory, and a completed access there would be reported as a deviation of the emulator
        if let Ok(txt) = std::fs::read_to_string("/proc/self/maps") {
            for l in txt.lines() {
                let range = l.split_whitespace().next().unwrap_or("");
                if let Some((a, b)) = range.split_once('-') {
                    let (a, b) = (u64::from_str_radix(a, 16).unwrap_or(0), u64::from_str_radix(b, 16).unwrap_or(0));
                    let is_guest = ARENAS.iter().any(|d| a >= d.base - 0x1000 && b <= d.base + d.len as u64 + 0x1000);
                    if !is_guest && addr < b && end > a {
                        return true;
                    }
                }
            }
        }
        false
    }

    /// Execute exactly one instruction natively from `r`.
    pub fn step(&self, r: &Regs) -> Outcome {
        unsafe {
            *ptr::addr_of_mut!(GUEST_IN) = *r;
            raise(SIGUSR1);
            *ptr::addr_of!(OUT)
        }
    }
}
