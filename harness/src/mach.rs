//! Machine state shared by the native side and the emulator side of a differential case.
use crate::native::{ArenaKind, Native, Regs, ARENAS, GUEST_FLAG_MASK};
use crate::util::mix64;
use ax_x86::axecutor::Axecutor;
use ax_x86::helpers::errors::AxError;
use ax_x86::state::registers::SupportedRegister as SR;
use serde::{Deserialize, Serialize};

pub const SR64: [SR; 16] = [SR::RAX, SR::RCX, SR::RDX, SR::RBX, SR::RSP, SR::RBP, SR::RSI, SR::RDI, SR::R8, SR::R9, SR::R10, SR::R11, SR::R12, SR::R13, SR::R14, SR::R15];
pub const SRXMM: [SR; 16] = [
    SR::XMM0,
    SR::XMM1,
    SR::XMM2,
    SR::XMM3,
    SR::XMM4,
    SR::XMM5,
    SR::XMM6,
    SR::XMM7,
    SR::XMM8,
    SR::XMM9,
    SR::XMM10,
    SR::XMM11,
    SR::XMM12,
    SR::XMM13,
    SR::XMM14,
    SR::XMM15,
];
pub const GPR_NAMES: [&str; 16] = ["rax", "rcx", "rdx", "rbx", "rsp", "rbp", "rsi", "rdi", "r8", "r9", "r10", "r11", "r12", "r13", "r14", "r15"];

/// One single-instruction differential case in concrete form (this is what replay files hold).
#[derive(Clone, Debug, Serialize, Deserialize, PartialEq)]
pub struct NCase {
    /// instruction bytes (hex) placed at `rip`
    pub code: String,
    pub rip: u64,
    pub gpr: [u64; 16],
    pub rflags: u64,
    pub xmm: [[u64; 2]; 16],
    pub fs: u64,
    pub gs: u64,
    /// arena contents = PRNG stream of this seed …
    pub mem_seed: u64,
    /// … overridden by explicit patches (address, hex bytes)
    #[serde(default)]
    pub patches: Vec<(u64, String)>,
    /// generator's note about what it was aiming at (not used by the oracle)
    #[serde(default)]
    pub note: String,
    /// memory layout: 0 = code + rw + ro + stack arenas, 1 = code only, 2 = code + rw
    #[serde(default)]
    pub layout: u8,
    /// > 0: `code` is a whole program image placed at `rip`; run up to this many instructions in
    /// lock-step with the CPU (C04 programs)
    #[serde(default)]
    pub steps: u32,
    /// emulator-only prelude (C19): one instruction per character is stepped before the case's
    /// own step to move the machine's internal bookkeeping (call stack, trace, counters) away
    /// from the freshly constructed state; registers, flags and arena bytes are then reset to the
    /// case's. 'r' = ret, 'c' = call, 'j' = jmp, 'J' = jmp to itself (consecutive ones collapse),
    /// 'x' = a decoy (`jmp $`) executed at the case's own RIP before the case's bytes are put there.
    #[serde(default)]
    pub pre: String,
}

impl NCase {
    pub fn code_bytes(&self) -> Vec<u8> {
        crate::util::unhex(&self.code)
    }
    pub fn regs(&self) -> Regs {
        Regs { gpr: self.gpr, rip: self.rip, rflags: self.rflags & GUEST_FLAG_MASK, xmm: self.xmm, gs_base: self.gs }
    }
}

pub fn fill(seed: u64, kind: ArenaKind, len: usize) -> Vec<u8> {
    if kind == ArenaKind::Stack && len == 0x2000 {
        // the stack arena grew downwards by a page: its upper page keeps the stream it always had
        // (replay files name a seed, not the bytes)
        let mut v = fill(seed ^ 0x5eed_10e5, ArenaKind::Stack, 0x1000);
        v.extend_from_slice(&fill(seed, ArenaKind::Stack, 0x1000));
        return v;
    }
    let mut v = vec![0u8; len];
    let mut x = mix64(seed ^ (kind as u64 + 1).wrapping_mul(0x9E37_79B9));
    for ch in v.chunks_mut(8) {
        x ^= x << 13;
        x ^= x >> 7;
        x ^= x << 17;
        let b = x.wrapping_mul(0x2545F4914F6CDD1D).to_le_bytes();
        ch.copy_from_slice(&b[..ch.len()]);
    }
    v
}

/// Initial contents of the four arenas for a case.
pub fn arena_images(c: &NCase) -> Vec<(ArenaKind, Vec<u8>)> {
    let mut out = vec![];
    for d in ARENAS.iter() {
        let mut img = match d.kind {
            ArenaKind::Code => vec![0xccu8; d.len],
            k => fill(c.mem_seed, k, d.len),
        };
        for (addr, hexb) in &c.patches {
            let b = crate::util::unhex(hexb);
            for (i, byte) in b.iter().enumerate() {
                let a = addr.wrapping_add(i as u64);
                if a >= d.base && a < d.base + d.len as u64 {
                    img[(a - d.base) as usize] = *byte;
                }
            }
        }
        // the instruction bytes go in last: a data patch that overlaps them must not change which
        // instruction executes (everything that labels the case decodes `code`)
        if d.kind == ArenaKind::Code {
            for (_, at, b) in prelude_slots(c) {
                if !b.is_empty() {
                    let off = (at - d.base) as usize;
                    img[off..off + b.len()].copy_from_slice(&b);
                }
            }
            let code = c.code_bytes();
            let off = c.rip.wrapping_sub(d.base) as usize;
            if off < d.len {
                let n = code.len().min(d.len - off);
                img[off..off + n].copy_from_slice(&code[..n]);
            }
        }
        out.push((d.kind, img));
    }
    out
}

/// Build the emulator machine for a case: same areas, same bytes, same permissions.
pub fn build_ax(c: &NCase, images: &[(ArenaKind, Vec<u8>)]) -> Result<Axecutor, AxError> {
    let code_img = &images.iter().find(|(k, _)| *k == ArenaKind::Code).unwrap().1;
    let mut ax = Axecutor::new(code_img, crate::native::CODE_BASE, c.rip)?;
    for d in ARENAS.iter() {
        if d.kind == ArenaKind::Code {
            continue;
        }
        if c.layout == 1 || (c.layout == 2 && d.kind != ArenaKind::Rw) {
            continue;
        }
        let img = images.iter().find(|(k, _)| *k == d.kind).unwrap().1.clone();
        let name = match d.kind {
            ArenaKind::Stack => Some("Stack".to_string()),
            ArenaKind::Ro => Some("ro".to_string()),
            _ => Some("rw".to_string()),
        };
        ax.mem_init_area_named(d.base, img, name)?;
        if d.prot != 3 {
            ax.mem_prot(d.base, d.prot)?;
        }
    }
    for i in 0..16 {
        ax.reg_write_64(SR64[i], c.gpr[i])?;
        ax.reg_write_128(SRXMM[i], c.xmm[i][0] as u128 | ((c.xmm[i][1] as u128) << 64))?;
    }
    ax.verif_set_rflags(c.rflags & GUEST_FLAG_MASK);
    ax.write_fs(c.fs);
    ax.write_gs(c.gs);
    Ok(ax)
}

/// Prelude instructions (see `NCase::pre`) as (kind, address, bytes), one 16-byte slot each from
/// CODE_BASE+0xc10 (or +0x210 when the case's instruction lies in the upper half of the arena); consecutive 'J's share a slot so the same jump repeats. 'x' has no slot of its
/// own (it runs a decoy at the case's own RIP).
pub fn prelude_slots(c: &NCase) -> Vec<(char, u64, Vec<u8>)> {
    let pre = &c.pre;
    // well away from the case's own instruction
    let base = crate::native::CODE_BASE + if c.rip < crate::native::CODE_BASE + 0x800 { 0xc00 } else { 0x200 };
    let (mut slot, mut prev) = (0u64, ' ');
    let mut out = vec![];
    for ch in pre.chars() {
        if ch == 'x' {
            out.push((ch, 0, vec![]));
            prev = ch;
            continue;
        }
        if !(ch == 'J' && prev == 'J') {
            slot += 1;
        }
        prev = ch;
        let bytes: Vec<u8> = match ch {
            'r' => vec![0xc3],
            'c' => vec![0xe8, 11, 0, 0, 0],
            'j' => vec![0xeb, 14],
            _ => vec![0xeb, 0xfe],
        };
        out.push((ch, base + slot * 16, bytes));
    }
    out
}

/// See `NCase::pre`. The prelude's bytes are part of the code image (`arena_images`). Errors of
/// prelude steps are ignored (the state they leave is still a state a user can step from);
/// panics propagate to the caller's catch. 'x': other bytes (`jmp $`) are placed at the case's own
/// RIP, executed once, and replaced by the case's bytes again — a fetch must see the bytes that
/// are in memory now, not the ones it saw before.
pub fn run_prelude(ax: &mut Axecutor, c: &NCase, images: &[(ArenaKind, Vec<u8>)]) {
    if c.pre.is_empty() {
        return;
    }
    let dbg = std::env::var("AXVERIF_DEBUG").is_ok();
    let code_img = &images.iter().find(|(k, _)| *k == ArenaKind::Code).unwrap().1;
    let (cb, cl) = (crate::native::CODE_BASE, crate::native::CODE_LEN as u64);
    for (ch, at, _) in prelude_slots(c) {
        let _ = ax.reg_write_64(SR::RSP, crate::native::STK_BASE + 0x800);
        if ch == 'x' {
            if c.rip < cb || c.rip >= cb + cl {
                continue;
            }
            // the decoy is `jmp $`: RIP stays where it is (a NOP in the arena's last byte would end the run)
            let n = 2usize;
            if cb + cl - c.rip < 2 {
                continue;
            }
            let off = (c.rip - cb) as usize;
            let _ = ax.mem_prot(cb, 7);
            let _ = ax.mem_write_bytes(c.rip, &[0xeb, 0xfe]);
            let _ = ax.reg_write_64(SR::RIP, c.rip);
            let r = crate::util::block_on(ax.step());
            if dbg {
                eprintln!("prelude x at {:#x}: {:?}", c.rip, r.map_err(|e| e.to_string().chars().take(200).collect::<String>()));
            }
            let _ = ax.mem_write_bytes(c.rip, &code_img[off..off + n]);
            let _ = ax.mem_prot(cb, 5);
            continue;
        }
        if ch == 'r' {
            // a harmless return address in both candidate slots (the case's own stack contents may
            // aim at the end of the code, where a run finishes); the arena is restored below
            for k in 0..2 {
                let _ = ax.mem_write_64(crate::native::STK_BASE + 0x800 + 8 * k, at);
            }
        }
        let _ = ax.reg_write_64(SR::RIP, at);
        let r = crate::util::block_on(ax.step());
        if dbg {
            eprintln!("prelude {} at {:#x}: {:?}", ch, at, r.map_err(|e| e.to_string().chars().take(200).collect::<String>()));
        }
    }
    for (k, img) in images {
        let d = ARENAS.iter().find(|d| d.kind == *k).unwrap();
        if *k == ArenaKind::Stack {
            let _ = ax.mem_write_bytes(d.base, img);
        }
    }
    for i in 0..16 {
        let _ = ax.reg_write_64(SR64[i], c.gpr[i]);
    }
    let _ = ax.reg_write_64(SR::RIP, c.rip);
    ax.verif_set_rflags(c.rflags & GUEST_FLAG_MASK);
}

pub fn load_native(n: &Native, images: &[(ArenaKind, Vec<u8>)]) {
    for (k, img) in images {
        n.write_arena(*k, img);
    }
}

/// Registers of the emulator after a step, in native layout.
pub fn ax_regs(ax: &Axecutor) -> Regs {
    let mut r = Regs::default();
    for i in 0..16 {
        r.gpr[i] = ax.reg_read_64(SR64[i]).unwrap();
        let x = ax.reg_read_128(SRXMM[i]).unwrap();
        r.xmm[i] = [x as u64, (x >> 64) as u64];
    }
    r.rip = ax.reg_read_64(SR::RIP).unwrap();
    r.rflags = ax.verif_rflags();
    r.gs_base = ax.read_gs();
    r
}
