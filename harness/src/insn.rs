//! Instruction-case generators (DESIGN 2.3): form-directed construction over the encoding space,
//! constructive memory-operand placement, byte-level mutation.
use crate::mach::NCase;
use crate::native::*;
use crate::tape::Tape;
use crate::util::hex;
use ax_x86::auto::generated::SupportedMnemonic;
use iced_x86::*;
use std::convert::TryFrom;

pub const GPR64: [Register; 16] = [
    Register::RAX,
    Register::RCX,
    Register::RDX,
    Register::RBX,
    Register::RSP,
    Register::RBP,
    Register::RSI,
    Register::RDI,
    Register::R8,
    Register::R9,
    Register::R10,
    Register::R11,
    Register::R12,
    Register::R13,
    Register::R14,
    Register::R15,
];

pub fn mnemonic_supported(m: Mnemonic) -> bool {
    SupportedMnemonic::try_from(m).is_ok()
}

#[derive(Clone, Copy, Debug, PartialEq, Eq)]
pub enum Class {
    Data,
    Branch,
    Stack,
    /// CALL / RET: both a control transfer and a stack instruction
    CallRet,
    Os,
}

pub fn class_of(m: Mnemonic) -> Class {
    use Mnemonic::*;
    match m {
        Call | Ret => Class::CallRet,
        Push | Pop => Class::Stack,
        Jmp | Jrcxz | Jecxz | Ja | Jae | Jb | Jbe | Je | Jg | Jge | Jl | Jle | Jne | Jno | Jnp | Jns | Jo | Jp | Js => Class::Branch,
        Syscall | Int | Int1 | Int3 | Cpuid => Class::Os,
        _ => Class::Data,
    }
}

#[derive(Clone, Debug)]
pub struct Form {
    pub code: Code,
    pub name: String,
    pub class: Class,
}

fn kind_generatable(k: OpCodeOperandKind) -> bool {
    use OpCodeOperandKind as K;
    matches!(
        k,
        K::r8_reg
            | K::r8_opcode
            | K::r16_reg
            | K::r16_opcode
            | K::r32_reg
            | K::r32_opcode
            | K::r64_reg
            | K::r64_opcode
            | K::xmm_reg
            | K::xmm_rm
            | K::r8_or_mem
            | K::r16_or_mem
            | K::r32_or_mem
            | K::r64_or_mem
            | K::xmm_or_mem
            | K::mem
            | K::mem_offs
            | K::al
            | K::cl
            | K::ax
            | K::eax
            | K::rax
            | K::dx
            | K::imm8
            | K::imm8_const_1
            | K::imm8sex16
            | K::imm8sex32
            | K::imm8sex64
            | K::imm16
            | K::imm32
            | K::imm32sex64
            | K::imm64
            | K::br64_1
            | K::br64_4
    )
}

/// Every iced `Code` of a supported mnemonic that is valid in 64-bit mode. The bool says whether
/// all its operand kinds can be generated (the others are reported, never silently dropped).
pub fn candidate_forms() -> (Vec<Form>, Vec<String>) {
    let mut forms = vec![];
    let mut ungenerated = vec![];
    for code in Code::values() {
        if !mnemonic_supported(code.mnemonic()) {
            continue;
        }
        let oc = code.op_code();
        if !oc.is_instruction() || !oc.mode64() {
            continue;
        }
        // VEX/EVEX/XOP/3DNow encodings of a supported mnemonic do not exist, but be explicit
        if oc.encoding() != EncodingKind::Legacy {
            ungenerated.push(format!("{:?}", code));
            continue;
        }
        let ok = (0..oc.op_count()).all(|i| kind_generatable(oc.op_kind(i)));
        if !ok {
            ungenerated.push(format!("{:?}", code));
            continue;
        }
        forms.push(Form { code, name: format!("{:?}", code), class: class_of(code.mnemonic()) });
    }
    (forms, ungenerated)
}

/// 16-bit operand-size control transfers are vendor-divergent (Intel ignores 0x66, AMD does not):
/// excluded from the native oracle by construction (DESIGN 2.2).
pub fn vendor_divergent(code: Code) -> bool {
    use Code::*;
    matches!(
        code,
        Call_rm16 | Jmp_rm16 | Retnw | Retnw_imm16 | Call_rel16 | Jmp_rel16 | Jo_rel16 | Jno_rel16 | Jb_rel16 | Jae_rel16 | Je_rel16 | Jne_rel16 | Jbe_rel16 | Ja_rel16 | Js_rel16 | Jns_rel16 | Jp_rel16 | Jnp_rel16 | Jl_rel16 | Jge_rel16 | Jle_rel16 | Jg_rel16
    ) || {
        let n = format!("{:?}", code);
        (n.starts_with("Call_") || n.starts_with("Jmp_") || n.starts_with("Ret")) && (n.ends_with("m1616") || n.ends_with("m1632") || n.ends_with("ptr1616") || n.ends_with("ptr1632"))
    }
}

pub fn load_floor() -> Vec<String> {
    let path = std::env::var("AXVERIF_FLOOR").unwrap_or_else(|_| "/verif/data/implemented_forms.txt".to_string());
    std::fs::read_to_string(path)
        .unwrap_or_default()
        .lines()
        .map(|l| l.trim().to_string())
        .filter(|l| !l.is_empty() && !l.starts_with('#'))
        .collect()
}

// ---------------------------------------------------------------------------------------------

/// Where a memory operand is aimed.
#[derive(Clone, Copy, Debug, PartialEq, Eq)]
pub enum Aim {
    RwInside,
    RwLast,
    RwStraddleEnd,
    RwStraddleStart,
    RoInside,
    StackInside,
    CodeInside,
    Guard,
    Far,
    Unsolved,
}

#[derive(Clone, Debug)]
pub struct GenOpts {
    /// candidate forms to draw from (indices into the form table)
    pub forms: Vec<usize>,
    /// probability (out of 16) that an r/m operand is a memory operand
    pub mem16: u64,
    /// weights of the aims, in the order of `AIMS`
    pub aim_w: [u32; 9],
    pub allow_gs: bool,
    pub allow_fs: bool,
    pub allow_addr32: bool,
    pub allow_nullseg: bool,
    /// probability (out of 16) of a byte-level mutation after encoding
    pub mutate16: u64,
    /// steer RSP into the stack arena for every case (stack properties)
    pub steer_rsp: bool,
    /// probability (out of 16) that the memory operand is re-emitted by the raw ModRM/SIB emitter
    /// (all mod/rm/SIB shapes incl. redundant ones that an assembler never produces)
    pub raw_modrm16: u64,
}

pub const AIMS: [Aim; 9] = [Aim::RwInside, Aim::RwLast, Aim::RwStraddleEnd, Aim::RwStraddleStart, Aim::RoInside, Aim::StackInside, Aim::CodeInside, Aim::Guard, Aim::Far];

impl GenOpts {
    pub fn benign(forms: Vec<usize>) -> GenOpts {
        GenOpts { forms, mem16: 8, aim_w: [40, 4, 0, 0, 2, 3, 1, 0, 0], allow_gs: true, allow_fs: false, allow_addr32: true, allow_nullseg: true, mutate16: 1, steer_rsp: false, raw_modrm16: 2 }
    }
    pub fn faulty(forms: Vec<usize>) -> GenOpts {
        GenOpts { forms, mem16: 12, aim_w: [12, 8, 8, 4, 10, 3, 6, 6, 4], allow_gs: true, allow_fs: false, allow_addr32: true, allow_nullseg: true, mutate16: 1, steer_rsp: false, raw_modrm16: 2 }
    }
}

struct Plan {
    base: Register,
    index: Register,
    scale: u32,
    seg: Register,
    addr32: bool,
    aim: Aim,
    /// 0 none, 1 disp8, 2 disp32
    disp_kind: u64,
}

fn reg_num(r: Register) -> usize {
    r.full_register().number()
}

fn pick_gpr(t: &mut Tape, bits: u32, rexfree: bool) -> Register {
    match bits {
        8 => {
            if rexfree {
                t.pick(&[Register::AL, Register::CL, Register::DL, Register::BL, Register::AH, Register::CH, Register::DH, Register::BH])
            } else {
                Register::AL + t.below(16) as u32
            }
        }
        16 => Register::AX + t.below(if rexfree { 8 } else { 16 }) as u32,
        32 => Register::EAX + t.below(if rexfree { 8 } else { 16 }) as u32,
        64 => Register::RAX + t.below(if rexfree { 8 } else { 16 }) as u32,
        128 => Register::XMM0 + t.below(if rexfree { 8 } else { 16 }) as u32,
        _ => unreachable!(),
    }
}

const IMM8_SET: [u8; 20] = [0, 1, 2, 7, 8, 9, 15, 16, 17, 31, 32, 33, 63, 64, 65, 0x7f, 0x80, 0x81, 0xfe, 0xff];
pub const COUNT_SET: [u8; 20] = [0, 1, 2, 7, 8, 9, 15, 16, 17, 31, 32, 33, 63, 64, 65, 0x80, 0x81, 0xc0, 0xe0, 0xff];

fn gen_imm8(t: &mut Tape) -> u8 {
    if t.below(4) < 3 {
        t.pick(&IMM8_SET)
    } else {
        t.raw() as u8
    }
}

/// Generate one single-instruction case. Returns None when nothing encodable came out (counted).
pub fn gen_case(t: &mut Tape, forms: &[Form], o: &GenOpts) -> Option<NCase> {
    let fi = o.forms[t.below(o.forms.len() as u64) as usize];
    let form = &forms[fi];
    let code = form.code;
    let oc = code.op_code();
    let mnem = code.mnemonic();

    // ---- machine state (drawn first so that operand construction can overwrite what it solves)
    let mut gpr = [0u64; 16];
    for g in gpr.iter_mut() {
        *g = t.val64();
    }
    let xs = t.raw();
    let mut xmm = [[0u64; 2]; 16];
    for (i, x) in xmm.iter_mut().enumerate() {
        *x = [crate::util::mix2(xs, 2 * i as u64), crate::util::mix2(xs, 2 * i as u64 + 1)];
    }
    let fl = t.raw();
    let mut rflags = 0u64;
    for (i, bit) in [0u64, 2, 4, 6, 7, 11].iter().enumerate() {
        if fl >> i & 1 == 1 {
            rflags |= 1 << bit;
        }
    }
    if (fl >> 8) & 7 == 7 {
        rflags |= 0x400;
    }
    let mem_seed = t.raw();
    let code_off = 0x10 + t.below(CODE_LEN as u64 - 0x40);
    let rip = CODE_BASE + code_off;
    let mut patches: Vec<(u64, String)> = vec![];
    let mut gs = 0u64;
    let mut fs = 0u64;
    let mut note = String::new();

    // RSP steering
    let stackish = matches!(form.class, Class::Stack | Class::CallRet) || o.steer_rsp;
    if stackish {
        let c = t.weighted(&[50, 6, 6, 6, 4, 3, 3, 2, 5]);
        gpr[4] = match c {
            8 => 0x3000_0000 - 16 + 2 * t.below(16), // around a 64 KiB boundary inside the stack: SP carries
            0 => STK_BASE + 0x100 + 8 * t.below((STK_LEN as u64 - 0x200) / 8),
            1 => STK_BASE + 0x100 + t.below(STK_LEN as u64 - 0x200), // misaligned
            2 => STK_BASE + STK_LEN as u64 - 8 * t.below(3),         // top slots / one past the end
            3 => STK_BASE + 8 * t.below(3),                          // bottom slots
            4 => RO_BASE + 0x100 + 8 * t.below(0x100),               // read-only "stack"
            5 => STK_BASE - 8 * (1 + t.below(2)),                    // just below (guard)
            6 => STK_BASE + STK_LEN as u64 + 8 * t.below(2),         // just above (guard)
            _ => gpr[4],
        };
        note.push_str(&format!("rsp-class={} ", c));
    }

    // ---- operands
    let has_r8 = (0..oc.op_count()).any(|i| {
        matches!(oc.op_kind(i), OpCodeOperandKind::r8_reg | OpCodeOperandKind::r8_opcode | OpCodeOperandKind::r8_or_mem)
    });
    let rexfree_wish = has_r8 && t.below(4) == 0;
    let want_mem = t.below(16) < o.mem16;
    let op_words_start = t.pos();
    let mut chosen: Option<(Instruction, Option<Plan>, Vec<u8>)> = None;
    for attempt in 0..2 {
        let rexfree = rexfree_wish && attempt == 0;
        // re-read the same operand words on the second attempt so the case stays a function of the tape
        let mut ins = Instruction::default();
        ins.set_code(code);
        let mut plan: Option<Plan> = None;
        t.seek(op_words_start);
        for i in 0..oc.op_count() {
            use OpCodeOperandKind as K;
            let k = oc.op_kind(i);
            let setreg = |ins: &mut Instruction, r: Register| {
                ins.set_op_kind(i, OpKind::Register);
                ins.set_op_register(i, r);
            };
            match k {
                K::r8_reg | K::r8_opcode => setreg(&mut ins, pick_gpr(&mut *t, 8, rexfree)),
                K::r16_reg | K::r16_opcode => setreg(&mut ins, pick_gpr(&mut *t, 16, rexfree)),
                K::r32_reg | K::r32_opcode => setreg(&mut ins, pick_gpr(&mut *t, 32, rexfree)),
                K::r64_reg | K::r64_opcode => setreg(&mut ins, pick_gpr(&mut *t, 64, rexfree)),
                K::xmm_reg | K::xmm_rm => setreg(&mut ins, pick_gpr(&mut *t, 128, rexfree)),
                K::r8_or_mem | K::r16_or_mem | K::r32_or_mem | K::r64_or_mem | K::xmm_or_mem => {
                    if want_mem {
                        ins.set_op_kind(i, OpKind::Memory);
                        plan = Some(gen_plan(&mut *t, o, rexfree, form.class));
                    } else {
                        let b = match k {
                            K::r8_or_mem => 8,
                            K::r16_or_mem => 16,
                            K::r32_or_mem => 32,
                            K::r64_or_mem => 64,
                            _ => 128,
                        };
                        setreg(&mut ins, pick_gpr(&mut *t, b, rexfree));
                    }
                }
                K::mem => {
                    ins.set_op_kind(i, OpKind::Memory);
                    plan = Some(gen_plan(&mut *t, o, rexfree, form.class));
                }
                K::mem_offs => {
                    ins.set_op_kind(i, OpKind::Memory);
                    let addr32 = o.allow_addr32 && t.below(8) == 0;
                    let seg = gen_seg(t, o);
                    let aim = AIMS[t.weighted(&o.aim_w)];
                    plan = Some(Plan { base: Register::None, index: Register::None, scale: 1, seg, addr32, aim, disp_kind: 3 });
                }
                K::al => setreg(&mut ins, Register::AL),
                K::cl => setreg(&mut ins, Register::CL),
                K::ax => setreg(&mut ins, Register::AX),
                K::eax => setreg(&mut ins, Register::EAX),
                K::rax => setreg(&mut ins, Register::RAX),
                K::dx => setreg(&mut ins, Register::DX),
                K::imm8 => {
                    ins.set_op_kind(i, OpKind::Immediate8);
                    ins.set_immediate8(gen_imm8(&mut *t));
                }
                K::imm8_const_1 => {
                    ins.set_op_kind(i, OpKind::Immediate8);
                    ins.set_immediate8(1);
                }
                K::imm8sex16 => {
                    ins.set_op_kind(i, OpKind::Immediate8to16);
                    ins.set_immediate8to16(gen_imm8(&mut *t) as i8 as i16);
                }
                K::imm8sex32 => {
                    ins.set_op_kind(i, OpKind::Immediate8to32);
                    ins.set_immediate8to32(gen_imm8(&mut *t) as i8 as i32);
                }
                K::imm8sex64 => {
                    ins.set_op_kind(i, OpKind::Immediate8to64);
                    ins.set_immediate8to64(gen_imm8(&mut *t) as i8 as i64);
                }
                K::imm16 => {
                    ins.set_op_kind(i, OpKind::Immediate16);
                    ins.set_immediate16(t.val64() as u16);
                }
                K::imm32 => {
                    ins.set_op_kind(i, OpKind::Immediate32);
                    ins.set_immediate32(t.val64() as u32);
                }
                K::imm32sex64 => {
                    ins.set_op_kind(i, OpKind::Immediate32to64);
                    ins.set_immediate32to64(t.val64() as i32 as i64);
                }
                K::imm64 => {
                    ins.set_op_kind(i, OpKind::Immediate64);
                    ins.set_immediate64(t.val64());
                }
                K::br64_1 | K::br64_4 => {
                    ins.set_op_kind(i, OpKind::NearBranch64);
                    let tt = &mut *t;
                    let target = if k == K::br64_1 {
                        // any rel8: relative to the end of the instruction; length is 2 (3 with a 67 prefix)
                        let len = if matches!(mnem, Mnemonic::Jecxz) { 3 } else { 2 };
                        let rel = match tt.below(4) {
                            0 => tt.pick(&[0i8, 1, -1, 127, -128, -2, 2]),
                            _ => tt.raw() as i8,
                        };
                        rip.wrapping_add(len).wrapping_add(rel as i64 as u64)
                    } else {
                        match tt.below(6) {
                            0 => CODE_BASE + tt.below(CODE_LEN as u64), // inside the code arena
                            1 => CODE_BASE + CODE_LEN as u64,           // exactly the code end
                            2 => rip.wrapping_add(5).wrapping_add(tt.raw() as i32 as i64 as u64), // anywhere ±2 GiB
                            3 => rip.wrapping_add(tt.pick(&[0u64, 5, 6, 4, 1])),
                            4 => RW_BASE + tt.below(RW_LEN as u64),
                            _ => rip.wrapping_sub(tt.below(0x1000)),
                        }
                    };
                    ins.set_near_branch64(target);
                }
                _ => return None,
            }
        }
        // ---- solve the memory operand
        let msize = ins_mem_size(&ins);
        let lea_free = mnem == Mnemonic::Lea && t.below(4) != 0;
        if let (Some(p), true) = (&plan, lea_free) {
            // LEA touches no memory: every register/displacement combination is in the domain, so
            // nothing is solved and wrap-around of every component is reached directly
            if p.disp_kind != 3 {
                let full = |r: Register| -> Register {
                    if r == Register::None || r == Register::RIP || r == Register::EIP {
                        r
                    } else if p.addr32 {
                        Register::EAX + r.number() as u32
                    } else {
                        r
                    }
                };
                ins.set_memory_base(full(p.base));
                ins.set_memory_index(full(p.index));
                ins.set_memory_index_scale(p.scale);
                let is_ip = p.base == Register::RIP || p.base == Register::EIP;
                let d: i64 = match (p.disp_kind, is_ip || p.base == Register::None) {
                    (0, false) => 0,
                    (1, false) => t.raw() as i8 as i64,
                    _ => t.raw() as i32 as i64,
                };
                if is_ip {
                    // iced wants the absolute target for RIP-relative operands
                    let tgt = (rip as i64 + 7 + d) as u64;
                    ins.set_memory_displacement64(if p.addr32 { tgt & 0xffff_ffff } else { tgt });
                    ins.set_memory_displ_size(if p.addr32 { 4 } else { 8 });
                } else {
                    ins.set_memory_displacement64(if p.addr32 { d as u64 & 0xffff_ffff } else { d as u64 });
                    ins.set_memory_displ_size(if p.base == Register::None { if p.addr32 { 4 } else { 8 } } else { match p.disp_kind { 0 => 0, 1 => 1, _ => if p.addr32 { 4 } else { 8 } } });
                }
                if p.seg != Register::None {
                    ins.set_segment_prefix(p.seg);
                    if p.seg == Register::GS {
                        gs = t.raw() & 0x0000_7fff_ffff_ffff;
                    }
                    if p.seg == Register::FS {
                        fs = t.raw() & 0x0000_7fff_ffff_ffff;
                    }
                }
                note.push_str("lea-unsolved ");
            }
        }
        if let (Some(p), false) = (&plan, lea_free && plan.as_ref().map(|p| p.disp_kind != 3).unwrap_or(false)) {
            let target = aim_target(&mut *t, p.aim, msize);
            note.push_str(&format!("aim={:?} target={:#x} ", p.aim, target));
            let segbase = match p.seg {
                Register::GS => {
                    let tt = &mut *t;
                    let gcls = tt.below(8);
                    gs = match gcls {
                        0 => 0,
                        1 => tt.below(0x1000),
                        // a base that is a multiple of 4 GiB (handled below: the offset is solved as if the base
                        // were 0, so the true linear address lies above 4 GiB and is unmapped, while an
                        // implementation that truncates the *linear* address to 32 bits lands in the arena)
                        6 | 7 => (1 + tt.below(0x7ffe)) << 32,
                        2 => 0x0000_7fff_ffff_f000 - tt.below(0x1000),
                        3 => 0xffff_8000_0000_0000 + tt.below(0x10000),
                        4 => (tt.raw() & 0x0000_7fff_ffff_ffff) | if tt.bool() { 0xffff_8000_0000_0000 } else { 0 },
                        _ => RW_BASE.wrapping_sub(tt.below(0x100)),
                    };
                    // keep the base canonical (wrgsbase faults otherwise)
                    if (gs >> 47) != 0 && (gs >> 47) != 0x1ffff {
                        gs &= 0x0000_7fff_ffff_ffff;
                    }
                    if gcls >= 6 && p.addr32 {
                        note.push_str("gs-above-4GiB-with-addr32 ");
                        0
                    } else {
                        gs
                    }
                }
                Register::FS => {
                    let tt = &mut *t;
                    fs = match tt.below(4) {
                        0 => 0,
                        1 => tt.below(0x1000),
                        2 => tt.raw() & 0x0000_7fff_ffff_ffff,
                        _ => RW_BASE.wrapping_sub(tt.below(0x100)),
                    };
                    fs
                }
                _ => 0,
            };
            // the CPU truncates the effective address to 32 bits *before* adding the segment base
            let a = target.wrapping_sub(segbase);
            let tt = &mut *t;
            if p.disp_kind == 3 {
                // moffs
                if p.addr32 {
                    ins.set_memory_displ_size(4);
                    ins.set_memory_displacement64(a & 0xffff_ffff);
                } else {
                    ins.set_memory_displ_size(8);
                    ins.set_memory_displacement64(a);
                }
            } else {
                let m = if p.addr32 { 0xffff_ffffu64 } else { u64::MAX };
                let full = |r: Register| -> Register {
                    if r == Register::None || r == Register::RIP || r == Register::EIP {
                        r
                    } else if p.addr32 {
                        Register::EAX + r.number() as u32
                    } else {
                        r
                    }
                };
                ins.set_memory_base(full(p.base));
                ins.set_memory_index(full(p.index));
                ins.set_memory_index_scale(p.scale);
                let junk_hi = |tt: &mut Tape, v: u64| -> u64 {
                    if p.addr32 {
                        (v & 0xffff_ffff) | (tt.raw() << 32)
                    } else {
                        v
                    }
                };
                let idx_val = if p.index != Register::None {
                    let v = match tt.below(8) {
                        0 => 0,
                        1 => 1,
                        2 => u64::MAX,
                        3 => 0x8000_0000_0000_0000,
                        4 => 0x8000_0000,
                        5 => tt.below(64),
                        6 => 0x2000_0000_0000_0000,
                        _ => tt.raw(),
                    };
                    v & m
                } else {
                    0
                };
                let is_ip = p.base == Register::RIP || p.base == Register::EIP;
                if is_ip {
                    ins.set_memory_displacement64(a & m);
                    ins.set_memory_displ_size(if p.addr32 { 4 } else { 8 });
                } else if p.base == Register::None {
                    // [index*scale + disp32] or [disp32]: solve so that index*scale + disp wraps to `a`
                    let sc = p.scale as u64;
                    let (k, d): (u64, u64) = if p.index == Register::None {
                        (0, a & m)
                    } else if tt.below(3) == 0 {
                        // small index, the displacement absorbs the rest
                        let k = tt.below(64);
                        (k, a.wrapping_sub(k.wrapping_mul(sc)) & m)
                    } else if p.addr32 {
                        // any 32-bit index: the sum wraps at 4 GiB
                        let k = tt.raw() & 0xffff_ffff;
                        (k, a.wrapping_sub(k.wrapping_mul(sc)) & 0xffff_ffff)
                    } else {
                        // random sign-extended disp32 with (a - d) divisible by the scale; the top bits of
                        // the index that the scale shifts out are junk
                        let mut dd = tt.raw() as i32 as i64;
                        dd -= (dd.wrapping_sub(a as i64)).rem_euclid(sc as i64);
                        if dd < i32::MIN as i64 {
                            dd += sc as i64;
                        }
                        let k = (a.wrapping_sub(dd as u64)) / sc;
                        let shift = sc.trailing_zeros();
                        let k = if shift > 0 { k | (tt.raw() << (64 - shift)) } else { k };
                        (k, dd as u64)
                    };
                    if !p.addr32 && (d as i64) as i32 as i64 != d as i64 {
                        // not reachable with a sign-extended disp32: leave unsolved (both sides fault)
                        note.push_str("unsolved-nobase ");
                    }
                    ins.set_memory_displacement64(if p.addr32 { d & 0xffff_ffff } else { d as i64 as i32 as i64 as u64 });
                    ins.set_memory_displ_size(if p.addr32 { 4 } else { 8 });
                    if p.index != Register::None {
                        gpr[reg_num(p.index)] = junk_hi(tt, k);
                    }
                } else if p.base == p.index {
                    // reg*(1+scale) + disp = a: 1+scale is 2, 3, 5 or 9; the odd ones are invertible mod 2^64
                    let f = 1 + p.scale as u64;
                    let (k, d): (u64, u64) = if f % 2 == 1 && tt.bool() {
                        let dd = tt.raw() as i32 as i64 as u64;
                        // modular inverse of f (Newton iteration)
                        let mut inv = f;
                        for _ in 0..6 {
                            inv = inv.wrapping_mul(2u64.wrapping_sub(f.wrapping_mul(inv)));
                        }
                        ((a.wrapping_sub(dd)).wrapping_mul(inv) & m, dd)
                    } else {
                        let k = tt.below(64);
                        (k, a.wrapping_sub(k.wrapping_mul(f)))
                    };
                    ins.set_memory_displacement64(if p.addr32 { d & 0xffff_ffff } else { d as i64 as i32 as i64 as u64 });
                    ins.set_memory_displ_size(if p.addr32 { 4 } else { 8 });
                    gpr[reg_num(p.base)] = junk_hi(tt, k);
                } else {
                    let d: i64 = match p.disp_kind {
                        0 => 0,
                        1 => tt.raw() as i8 as i64,
                        _ => tt.raw() as i32 as i64,
                    };
                    ins.set_memory_displacement64(if p.addr32 { d as u64 & 0xffff_ffff } else { d as u64 });
                    ins.set_memory_displ_size(match p.disp_kind {
                        0 => 0,
                        1 => 1,
                        _ => {
                            if p.addr32 {
                                4
                            } else {
                                8
                            }
                        }
                    });
                    if p.index != Register::None {
                        gpr[reg_num(p.index)] = junk_hi(tt, idx_val);
                    }
                    let b = a.wrapping_sub(idx_val.wrapping_mul(p.scale as u64)).wrapping_sub(d as u64) & m;
                    gpr[reg_num(p.base)] = junk_hi(tt, b);
                }
            }
            if p.seg != Register::None {
                ins.set_segment_prefix(p.seg);
            }
        }
        let mut enc = Encoder::new(64);
        match enc.encode(&ins, rip) {
            Ok(_) => {
                let bytes = enc.take_buffer();
                chosen = Some((ins, plan, bytes));
                break;
            }
            Err(_) => continue,
        }
    }
    let (ins, plan, mut bytes) = chosen?;

    // ---- raw ModRM/SIB emitter: re-emit the memory operand byte by byte
    if let Some(p) = &plan {
        let has_high8 = (0..ins.op_count()).any(|i| ins.op_kind(i) == OpKind::Register && matches!(ins.op_register(i), Register::AH | Register::CH | Register::DH | Register::BH));
        if o.raw_modrm16 > 0 && t.below(16) < o.raw_modrm16 && p.disp_kind != 3 && !has_high8 && p.seg == Register::None {
            let size = ins_mem_size(&ins);
            let target = if mnem == Mnemonic::Lea { t.val64() } else { aim_target(t, p.aim, size) };
            if let Some((rb, sets, shape)) = raw_modrm(t, code, &ins, rip, target) {
                bytes = rb;
                for (r, v) in sets {
                    gpr[r] = v;
                }
                note = format!("raw-modrm {} target={:#x} ", shape, target);
                patches.clear();
            }
        }
    }

    // ---- per-mnemonic steering of implicit operands
    match mnem {
        Mnemonic::Shl | Mnemonic::Shr => {
            if t.below(4) != 0 {
                gpr[1] = (gpr[1] & !0xff) | t.pick(&COUNT_SET) as u64;
            }
        }
        Mnemonic::Div | Mnemonic::Idiv => steer_div(t, &ins, &mut gpr, &mut patches, plan.as_ref(), &note),
        Mnemonic::Jrcxz | Mnemonic::Jecxz => {
            gpr[1] = match t.below(5) {
                0 => 0,
                1 => 1u64 << 32, // ECX = 0, RCX != 0
                2 => 1,
                3 => u64::MAX,
                _ => t.raw(),
            };
        }
        Mnemonic::Ret => {
            // plant a return address where the CPU (and, one slot up, the emulator's convention) will look
            let tgt = match t.below(4) {
                0 => CODE_BASE + t.below(CODE_LEN as u64),
                1 => CODE_BASE + CODE_LEN as u64,
                2 => t.raw() & 0x0000_7fff_ffff_ffff,
                _ => RW_BASE + t.below(0x100),
            };
            if t.below(8) != 0 {
                patches.push((gpr[4], hex(&tgt.to_le_bytes())));
                let other = CODE_BASE + t.below(CODE_LEN as u64);
                patches.push((gpr[4].wrapping_add(8), hex(&other.to_le_bytes())));
            }
        }
        Mnemonic::Jmp | Mnemonic::Call => {
            // indirect forms: steer the target operand
            if ins.op0_kind() == OpKind::Register || ins.op0_kind() == OpKind::Memory {
                let tgt = match t.below(6) {
                    0 => CODE_BASE + t.below(CODE_LEN as u64),
                    1 => CODE_BASE + CODE_LEN as u64,
                    2 => t.raw() & 0x0000_7fff_ffff_ffff,       // unmapped user-half
                    3 => 0xffff_8000_0000_0000 | (t.raw() >> 17), // kernel half (canonical)
                    4 => RW_BASE + t.below(RW_LEN as u64),
                    _ => t.below(0x1000),
                };
                if ins.op0_kind() == OpKind::Register {
                    let r = ins.op0_register();
                    if r.is_gpr64() && !(stackish && r == Register::RSP) {
                        gpr[reg_num(r)] = tgt;
                    }
                } else if let Some(p) = &plan {
                    if matches!(p.aim, Aim::RwInside | Aim::RwLast | Aim::StackInside | Aim::RoInside) {
                        if let Some(a) = note_target(&note) {
                            patches.push((a, hex(&tgt.to_le_bytes())));
                        }
                    }
                }
            }
        }
        _ => {}
    }

    // ---- byte-level mutation
    if o.mutate16 > 0 && t.below(16) < o.mutate16 {
        let m = mutate(t, &bytes);
        // accept only if it still decodes to a generatable form of a supported mnemonic
        let mut d = Decoder::with_ip(64, &m, rip, DecoderOptions::NONE);
        let di = d.decode();
        if !di.is_invalid() && di.len() == m.len() && m.len() <= 15 && mnemonic_supported(di.mnemonic()) && forms.iter().any(|f| f.code == di.code()) && class_of(di.mnemonic()) == form.class {
            note.push_str("mutated ");
            bytes = m;
        }
    }

    Some(NCase { code: hex(&bytes), rip, gpr, rflags, xmm, fs, gs, mem_seed, patches, note, layout: 0, steps: 0, pre: String::new() })
}

fn note_target(note: &str) -> Option<u64> {
    let i = note.find("target=0x")?;
    let s = &note[i + 9..];
    let e = s.find(' ').unwrap_or(s.len());
    u64::from_str_radix(&s[..e], 16).ok()
}

pub fn ins_mem_size(ins: &Instruction) -> u64 {
    ins.memory_size().size() as u64
}

fn gen_seg(t: &mut Tape, o: &GenOpts) -> Register {
    match t.below(16) {
        0 if o.allow_gs => Register::GS,
        1 if o.allow_gs => Register::GS,
        2 if o.allow_fs => Register::FS,
        3 if o.allow_nullseg => t.pick(&[Register::ES, Register::CS, Register::SS, Register::DS]),
        _ => Register::None,
    }
}

fn gen_plan(t: &mut Tape, o: &GenOpts, rexfree: bool, class: Class) -> Plan {
    let nreg = if rexfree { 8 } else { 16 };
    let addr32 = o.allow_addr32 && t.below(10) == 0;
    let base = match t.below(12) {
        0 => Register::None,
        1 => {
            if addr32 {
                Register::EIP
            } else {
                Register::RIP
            }
        }
        _ => GPR64[t.below(nreg) as usize],
    };
    let base = if base == Register::RSP && class != Class::Data && t.below(8) != 0 { Register::RBX } else { base };
    let index = if base == Register::RIP || base == Register::EIP {
        Register::None
    } else {
        match t.below(3) {
            0 => Register::None,
            _ => {
                let r = GPR64[t.below(nreg) as usize];
                if r == Register::RSP {
                    Register::None
                } else {
                    r
                }
            }
        }
    };
    let scale = t.pick(&[1u32, 2, 4, 8]);
    let disp_kind = t.below(3);
    let seg = gen_seg(t, o);
    let aim = AIMS[t.weighted(&o.aim_w)];
    Plan { base, index, scale, seg, addr32, aim, disp_kind }
}

fn aim_target(t: &mut Tape, aim: Aim, size: u64) -> u64 {
    let sz = size.max(1);
    let align = |t: &mut Tape, a: u64| -> u64 {
        if size == 16 && t.below(4) != 0 {
            a & !0xf
        } else {
            a
        }
    };
    match aim {
        Aim::RwInside => {
            let a = RW_BASE + 0x10 + t.below(RW_LEN as u64 - 0x40);
            align(t, a)
        }
        Aim::RwLast => RW_BASE + RW_LEN as u64 - sz,
        Aim::RwStraddleEnd => RW_BASE + RW_LEN as u64 - t.below(sz),
        Aim::RwStraddleStart => RW_BASE - 1 - t.below(sz),
        Aim::RoInside => {
            let a = RO_BASE + 0x10 + t.below(RO_LEN as u64 - 0x40);
            align(t, a)
        }
        Aim::StackInside => {
            let a = STK_BASE + 0x10 + t.below(STK_LEN as u64 - 0x40);
            align(t, a)
        }
        Aim::CodeInside => {
            let a = CODE_BASE + 0x10 + t.below(CODE_LEN as u64 - 0x40);
            align(t, a)
        }
        Aim::Guard => match t.below(3) {
            0 => RW_BASE + RW_LEN as u64 + t.below(0x1000 - sz),
            1 => RW_BASE - 0x1000 + t.below(0x1000 - sz),
            _ => STK_BASE + STK_LEN as u64 + t.below(0x100),
        },
        Aim::Far => match t.below(4) {
            0 => 0x4000_0000 + t.below(0x1000),
            1 => t.below(0x1000),
            2 => 0x7000_0000 + t.below(0x1000_0000),
            _ => 0x0000_1234_5678_0000 + t.below(0x1000),
        },
        Aim::Unsolved => 0,
    }
}

fn steer_div(t: &mut Tape, ins: &Instruction, gpr: &mut [u64; 16], patches: &mut Vec<(u64, String)>, plan: Option<&Plan>, note: &str) {
    // operand width
    let w: u32 = match ins.op0_kind() {
        OpKind::Register => ins.op0_register().size() as u32 * 8,
        _ => ins.memory_size().size() as u32 * 8,
    };
    if w == 0 {
        return;
    }
    let mask: u64 = if w == 64 { u64::MAX } else { (1u64 << w) - 1 };
    let signed = ins.mnemonic() == Mnemonic::Idiv;
    let cls = t.below(8);
    // choose divisor
    let d: u64 = match t.below(6) {
        0 => 0,
        1 => 1,
        2 => mask,            // -1 signed / max unsigned
        3 => t.below(16) + 1, // small
        4 => 1u64 << (w - 1), // MIN signed
        _ => t.val64() & mask,
    };
    // place divisor
    let mut placed = false;
    match ins.op0_kind() {
        OpKind::Register => {
            let r = ins.op0_register();
            let n = reg_num(r);
            // writing the divisor into RAX/RDX would disturb the dividend steering; keep those random
            if n != 0 && n != 2 {
                let is_high = matches!(r, Register::AH | Register::CH | Register::DH | Register::BH);
                if is_high {
                    gpr[n] = (gpr[n] & !0xff00) | ((d & 0xff) << 8);
                } else {
                    gpr[n] = (gpr[n] & !mask) | d;
                }
                placed = true;
            }
        }
        OpKind::Memory => {
            if let (Some(p), Some(a)) = (plan, note_target(note)) {
                if matches!(p.aim, Aim::RwInside | Aim::RwLast | Aim::StackInside | Aim::RoInside | Aim::CodeInside) {
                    let b = d.to_le_bytes();
                    patches.push((a, hex(&b[..(w / 8) as usize])));
                    placed = true;
                }
            }
        }
        _ => {}
    }
    if !placed {
        return;
    }
    // dividend: (hi:lo) in RDX:RAX (or AX for 8-bit)
    let constructive = d != 0 && t.bool();
    let (hi, lo): (u64, u64) = if constructive {
        // construct the dividend from a chosen quotient at/around the representable range and a remainder
        let (hi128, lo128): (u128, u128);
        if signed {
            let ds = ((d << (64 - w)) as i64 >> (64 - w)) as i128;
            let min = -(1i128 << (w - 1));
            let max = (1i128 << (w - 1)) - 1;
            let q: i128 = match t.below(10) {
                0 => min,
                1 => min + 1,
                2 => min - 1,
                3 => max,
                4 => max + 1,
                5 => max - 1,
                6 => -1,
                7 => 0,
                8 => 1,
                _ => (t.raw() as i64 as i128) >> (64 - w),
            };
            let prod = q * ds;
            let rmag = (t.raw() as u128 % ds.unsigned_abs()) as i128;
            let r = if prod < 0 || (prod == 0 && t.bool()) { -rmag } else { rmag };
            let dividend = prod + r;
            let bits = dividend as u128;
            lo128 = bits & mask as u128;
            hi128 = (bits >> w) & mask as u128;
        } else {
            let top = 1u128 << w;
            let q: u128 = match t.below(8) {
                0 => 0,
                1 => 1,
                2 => top - 1,
                3 => top,
                4 => top - 2,
                5 => top + 1,
                _ => t.raw() as u128 & mask as u128,
            };
            let dividend = q.wrapping_mul(d as u128).wrapping_add(t.raw() as u128 % d as u128);
            lo128 = dividend & mask as u128;
            hi128 = (dividend >> w) & mask as u128;
        }
        (hi128 as u64, lo128 as u64)
    } else {
        match cls {
        0 => (t.val64() & mask, t.val64() & mask),
        1 => (0, t.val64() & mask),
        2 => {
            let lo = t.val64() & mask;
            let neg = signed && (lo >> (w - 1)) & 1 == 1;
            (if neg { mask } else { 0 }, lo)
        }
        3 => (d.wrapping_sub(1) & mask, t.val64() & mask), // unsigned: just fits
        4 => (d & mask, t.val64() & mask),                 // unsigned: just overflows
        5 => (if signed { mask } else { 0 }, 1u64 << (w - 1)), // MIN / d
        6 => ((d >> 1) & mask, t.val64() & mask),          // signed boundary region
        _ => ((d >> 1).wrapping_add(t.below(3)).wrapping_sub(1) & mask, if t.bool() { mask } else { 0 }),
        }
    };
    if w == 8 {
        gpr[0] = (gpr[0] & !0xffff) | ((hi & 0xff) << 8) | (lo & 0xff);
    } else {
        gpr[0] = (gpr[0] & !mask) | lo;
        gpr[2] = (gpr[2] & !mask) | hi;
    }
}

/// Re-emit `ins` (which has exactly one memory operand) with a freshly chosen ModRM/SIB/displacement shape:
/// mod 0/1/2 × rm (with or without SIB) × SIB base (incl. base=5 with mod 0 → no base) × index (4 = none) ×
/// scale × REX.X/REX.B × optional 0x67. The register values are solved so that the operand addresses
/// `target`. Returns the bytes, the registers to set and a shape label; None if this form cannot be re-emitted.
fn raw_modrm(t: &mut Tape, code: Code, ins: &Instruction, rip: u64, target: u64) -> Option<(Vec<u8>, Vec<(usize, u64)>, String)> {
    // 1. encode with the placeholder operand [rax]: ModRM is then the last byte before the immediate(s)
    let mut ph = *ins;
    ph.set_memory_base(Register::RAX);
    ph.set_memory_index(Register::None);
    ph.set_memory_index_scale(1);
    ph.set_memory_displacement64(0);
    ph.set_memory_displ_size(0);
    ph.set_segment_prefix(Register::None);
    let mut e = Encoder::new(64);
    e.encode(&ph, rip).ok()?;
    let co = e.get_constant_offsets();
    let b0 = e.take_buffer();
    let imm = co.immediate_size() + co.immediate_size2();
    if b0.len() < imm + 2 {
        return None;
    }
    let mi = b0.len() - imm - 1;
    let modrm0 = b0[mi];
    if modrm0 >> 6 != 0 || modrm0 & 7 != 0 {
        return None;
    }
    // 2. locate / create the REX prefix
    let npre = b0.iter().take_while(|b| is_legacy_prefix(**b)).count();
    let mut head: Vec<u8> = b0[..mi].to_vec();
    let has_rex = head.get(npre).map(|b| b & 0xf0 == 0x40).unwrap_or(false);
    // 3. choose the shape
    let addr32 = t.below(8) == 0;
    let m: u64 = if addr32 { 0xffff_ffff } else { u64::MAX };
    let md = t.below(3) as u8;
    let use_sib = t.below(2) == 0;
    let base = t.below(16) as u8;
    let index = t.below(16) as u8; // 4 = none
    let scale_bits = t.below(4) as u8;
    let (mut rex_b, mut rex_x) = (0u8, 0u8);
    let mut tail: Vec<u8> = vec![];
    let mut sets: Vec<(usize, u64)> = vec![];
    let mut shape;
    let a = target & m;
    let junk = |t: &mut Tape, v: u64| if addr32 { (v & 0xffff_ffff) | (t.raw() << 32) } else { v };
    if !use_sib {
        if base & 7 == 4 {
            return None; // rm = 4 means SIB
        }
        if md == 0 && base & 7 == 5 {
            // RIP-relative disp32
            let next = rip + (head.len() + if has_rex || base >= 8 { 0 } else { 0 }) as u64; // patched below once the length is known
            let _ = next;
            shape = "mod0-rm5-riprel".to_string();
            tail.push(modrm0 | 5);
            // displacement is relative to the end of the instruction; computed after assembly
            tail.extend_from_slice(&[0, 0, 0, 0]);
        } else {
            rex_b = base >> 3;
            let d: i64 = match md {
                0 => 0,
                1 => t.raw() as i8 as i64,
                _ => t.raw() as i32 as i64,
            };
            shape = format!("mod{}-rm{}", md, base);
            tail.push(modrm0 | (md << 6) | (base & 7));
            match md {
                1 => tail.push(d as u8),
                2 => tail.extend_from_slice(&(d as i32).to_le_bytes()),
                _ => {}
            }
            sets.push((base as usize, junk(t, a.wrapping_sub(d as u64) & m)));
        }
    } else {
        if index == 4 && t.below(2) == 0 {
            // keep "no index" frequent: the redundant SIB forms
        }
        rex_b = base >> 3;
        rex_x = index >> 3;
        let no_index = index == 4;
        let no_base = md == 0 && base & 7 == 5;
        let scale = 1u64 << scale_bits;
        let idx_val: u64 = if no_index {
            0
        } else {
            (match t.below(6) {
                0 => 0,
                1 => 1,
                2 => u64::MAX,
                3 => t.below(64),
                4 => 0x8000_0000_0000_0000 | t.below(16),
                _ => t.raw(),
            }) & m
        };
        let d: i64 = if no_base {
            0 // solved below
        } else {
            match md {
                0 => 0,
                1 => t.raw() as i8 as i64,
                _ => t.raw() as i32 as i64,
            }
        };
        shape = format!("mod{}-sib-b{}-i{}-s{}", md, if no_base { "none".to_string() } else { base.to_string() }, if no_index { "none".to_string() } else { index.to_string() }, scale);
        tail.push(modrm0 | (md << 6) | 4);
        tail.push((scale_bits << 6) | ((index & 7) << 3) | (base & 7));
        if no_base {
            // disp32 absorbs the rest: needs index*scale + sext(disp32) == a
            let k = if no_index { 0 } else { t.below(64) };
            let dd = (a as i64).wrapping_sub((k.wrapping_mul(scale)) as i64);
            if !addr32 && dd as i32 as i64 != dd {
                return None;
            }
            tail.extend_from_slice(&(dd as i32).to_le_bytes());
            if !no_index {
                sets.push((index as usize, junk(t, k)));
            }
        } else {
            match md {
                1 => tail.push(d as u8),
                2 => tail.extend_from_slice(&(d as i32).to_le_bytes()),
                _ => {}
            }
            if !no_index && index == base {
                // reg*(1+scale) + d = a: only solvable in general when 1+scale is odd
                let f = 1 + scale;
                if f % 2 == 0 {
                    let v = a.wrapping_sub(d as u64);
                    if v % 2 != 0 {
                        return None;
                    }
                    sets.push((base as usize, junk(t, (v / 2) & m)));
                } else {
                    let mut inv = f;
                    for _ in 0..6 {
                        inv = inv.wrapping_mul(2u64.wrapping_sub(f.wrapping_mul(inv)));
                    }
                    sets.push((base as usize, junk(t, a.wrapping_sub(d as u64).wrapping_mul(inv) & m)));
                }
            } else {
                if !no_index {
                    sets.push((index as usize, junk(t, idx_val)));
                }
                sets.push((base as usize, junk(t, a.wrapping_sub(idx_val.wrapping_mul(scale)).wrapping_sub(d as u64) & m)));
            }
        }
    }
    // 4. REX
    if rex_b != 0 || rex_x != 0 {
        if has_rex {
            head[npre] |= rex_b | (rex_x << 1);
        } else {
            head.insert(npre, 0x40 | rex_b | (rex_x << 1));
        }
    } else if !has_rex && t.below(8) == 0 {
        head.insert(npre, 0x40); // a REX prefix without any bit set (redundant)
        shape.push_str("-rex40");
    }
    if addr32 {
        head.insert(0, 0x67);
        shape.push_str("-a32");
    }
    let mut out = head;
    let disp_pos = out.len() + 1;
    out.extend_from_slice(&tail);
    out.extend_from_slice(&b0[mi + 1..]);
    if shape.starts_with("mod0-rm5-riprel") {
        let end = rip + out.len() as u64;
        let rel = if addr32 { ((target & 0xffff_ffff) as i64).wrapping_sub((end & 0xffff_ffff) as i64) } else { (target as i64).wrapping_sub(end as i64) };
        if rel as i32 as i64 != rel {
            return None;
        }
        out[disp_pos..disp_pos + 4].copy_from_slice(&(rel as i32).to_le_bytes());
    }
    if out.len() > 15 {
        return None;
    }
    // 5. it must decode to the same form with a memory operand
    let di = Decoder::with_ip(64, &out, rip, DecoderOptions::NONE).decode();
    if di.is_invalid() || di.len() != out.len() || di.code() != code {
        return None;
    }
    Some((out, sets, shape))
}

const PREFIXES: [u8; 11] = [0x66, 0x67, 0xf2, 0xf3, 0x2e, 0x36, 0x3e, 0x26, 0x64, 0x65, 0xf0];

pub fn is_legacy_prefix(b: u8) -> bool {
    PREFIXES.contains(&b)
}

fn mutate(t: &mut Tape, bytes: &[u8]) -> Vec<u8> {
    let mut m = bytes.to_vec();
    match t.below(5) {
        0 => {
            // insert a redundant / semantic prefix at the front
            let p = t.pick(&[0x2eu8, 0x36, 0x3e, 0x26, 0x65, 0x66, 0xf2, 0xf3, 0x67, 0xf0]);
            m.insert(0, p);
        }
        1 => {
            // toggle a REX bit if a REX prefix is present (after legacy prefixes)
            let i = m.iter().position(|b| !is_legacy_prefix(*b)).unwrap_or(0);
            if i < m.len() && (m[i] & 0xf0) == 0x40 {
                m[i] ^= 1 << t.below(4);
            } else if i < m.len() {
                m.insert(i, 0x40 | t.below(16) as u8);
            }
        }
        2 => {
            // flip a bit in the last byte (immediate / displacement / modrm)
            let n = m.len();
            m[n - 1] ^= 1 << t.below(8);
        }
        3 => {
            // flip a bit anywhere after the first byte
            if m.len() > 1 {
                let i = 1 + t.below(m.len() as u64 - 1) as usize;
                m[i] ^= 1 << t.below(8);
            }
        }
        _ => {
            // two prefixes
            let p = t.pick(&[0x2eu8, 0x36, 0x3e, 0x26, 0x65, 0x66]);
            let q = t.pick(&[0x2eu8, 0x3e, 0x66, 0x65, 0xf3]);
            m.insert(0, p);
            m.insert(0, q);
        }
    }
    m
}
