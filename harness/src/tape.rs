//! Choice tapes: the universal generated value. A case is `Vec<Vec<u64>>` produced by a proptest
//! strategy (so it shrinks and replays); property code decodes it *monotonically* — smaller tape
//! words select simpler choices — which is what makes proptest's integer shrinking meaningful.
use proptest::prelude::*;
use proptest::strategy::{Strategy, ValueTree};
use proptest::test_runner::{Config, RngAlgorithm, TestRng, TestRunner};

pub type TapeVal = Vec<Vec<u64>>;

#[derive(Clone, Copy, Debug)]
pub struct Shape {
    /// number of rows: inclusive range
    pub rows_min: usize,
    pub rows_max: usize,
    /// words per row (fixed so that one row's shrinking never shifts another's meaning)
    pub row_len: usize,
}

impl Shape {
    pub const fn flat(len: usize) -> Shape {
        Shape { rows_min: 1, rows_max: 1, row_len: len }
    }
    pub const fn hist(rows_min: usize, rows_max: usize, row_len: usize) -> Shape {
        Shape { rows_min, rows_max, row_len }
    }
    pub fn strategy(&self) -> impl Strategy<Value = TapeVal> {
        let rl = self.row_len;
        proptest::collection::vec(proptest::collection::vec(any::<u64>(), rl..=rl), self.rows_min..=self.rows_max)
    }
}

pub fn runner_for(case_seed: u64) -> TestRunner {
    let mut seed = [0u8; 32];
    for i in 0..4 {
        seed[i * 8..i * 8 + 8].copy_from_slice(&crate::util::mix2(case_seed, i as u64).to_le_bytes());
    }
    let rng = TestRng::from_seed(RngAlgorithm::ChaCha, &seed);
    let cfg = Config { failure_persistence: None, cases: 1, max_shrink_iters: 4096, ..Config::default() };
    TestRunner::new_with_rng(cfg, rng)
}

/// Generate the value tree of case `case_seed`.
pub fn new_tree(shape: &Shape, case_seed: u64) -> Box<dyn ValueTree<Value = TapeVal>> {
    let mut runner = runner_for(case_seed);
    Box::new(shape.strategy().new_tree(&mut runner).expect("tape strategy cannot fail"))
}

/// Shrink `tree` while `still_fails(value)` holds; returns the smallest failing value found.
pub fn shrink(
    mut tree: Box<dyn ValueTree<Value = TapeVal>>,
    mut still_fails: impl FnMut(&TapeVal) -> bool,
    max_iters: usize,
) -> (TapeVal, usize) {
    let mut best = tree.current();
    let mut iters = 0;
    if !tree.simplify() {
        return (best, 0);
    }
    loop {
        iters += 1;
        let cur = tree.current();
        if still_fails(&cur) {
            best = cur;
            if iters >= max_iters || !tree.simplify() {
                break;
            }
        } else if iters >= max_iters || !tree.complicate() {
            break;
        }
    }
    (best, iters)
}

/// Sequential monotone reader over one row.
pub struct Tape<'a> {
    d: &'a [u64],
    p: usize,
}

impl<'a> Tape<'a> {
    pub fn new(d: &'a [u64]) -> Self {
        Tape { d, p: 0 }
    }
    pub fn raw(&mut self) -> u64 {
        let v = self.d.get(self.p).copied().unwrap_or(0);
        self.p += 1;
        v
    }
    /// Uniform in 0..n, monotone in the tape word (0 -> 0).
    pub fn below(&mut self, n: u64) -> u64 {
        if n <= 1 {
            self.p += 1;
            return 0;
        }
        ((self.raw() as u128 * n as u128) >> 64) as u64
    }
    pub fn bool(&mut self) -> bool {
        self.below(2) == 1
    }
    /// true with probability num/den (false is the "simple" outcome)
    pub fn chance(&mut self, num: u64, den: u64) -> bool {
        self.below(den) >= den - num
    }
    pub fn pick<T: Copy>(&mut self, xs: &[T]) -> T {
        xs[self.below(xs.len() as u64) as usize]
    }
    /// Weighted pick: `ws[i]` is the weight of index i. Index 0 is the simplest.
    pub fn weighted(&mut self, ws: &[u32]) -> usize {
        let total: u64 = ws.iter().map(|w| *w as u64).sum();
        let mut r = self.below(total);
        for (i, w) in ws.iter().enumerate() {
            if r < *w as u64 {
                return i;
            }
            r -= *w as u64;
        }
        ws.len() - 1
    }
    /// "interesting ∪ uniform" 64-bit value (DESIGN 2.3). Consumes two words.
    pub fn val64(&mut self) -> u64 {
        let cls = self.below(16);
        let r = self.raw();
        match cls {
            0 => 0,
            1 => 1,
            2 => r & 0xff,
            3 => u64::MAX,
            4 => 0x8000_0000_0000_0000,
            5 => 0x7fff_ffff_ffff_ffff,
            6 => {
                // sign boundaries of 8/16/32 ± 1
                let w = [8u32, 16, 32][(r % 3) as usize];
                let b = 1u64 << (w - 1);
                [b, b - 1, b + 1, (1u64 << w) - 1, 1u64 << w, (1u64 << w) + 1][((r >> 8) % 6) as usize]
            }
            7 => r & 0xffff,
            8 => r & 0xffff_ffff,
            9 => r | 0xffff_ffff_0000_0000,
            10 => (r & 0xff) | 0xffff_ffff_ffff_ff00,
            11 => 1u64 << (r % 64),
            12 => !(1u64 << (r % 64)),
            _ => r,
        }
    }
    pub fn pos(&self) -> usize {
        self.p
    }
    pub fn seek(&mut self, p: usize) {
        self.p = p;
    }
}

/// Raw bytes -> a tape of the given shape (little-endian words, zero padded; as many rows as the
/// bytes fill, within the shape's bounds): lets a coverage-guided byte-level fuzzer drive any
/// property's generator, and turns a saved fuzzer input back into the case it stood for.
pub fn tape_from_raw(shape: &Shape, raw: &[u8]) -> TapeVal {
    let words: Vec<u64> = raw
        .chunks(8)
        .map(|c| {
            let mut b = [0u8; 8];
            b[..c.len()].copy_from_slice(c);
            u64::from_le_bytes(b)
        })
        .collect();
    let rows = ((words.len() + shape.row_len - 1) / shape.row_len.max(1)).clamp(shape.rows_min, shape.rows_max);
    (0..rows)
        .map(|r| (0..shape.row_len).map(|k| words.get(r * shape.row_len + k).copied().unwrap_or(0)).collect())
        .collect()
}

/// The inverse direction for a starting corpus.
pub fn tape_to_raw(t: &TapeVal) -> Vec<u8> {
    t.iter().flat_map(|r| r.iter().flat_map(|w| w.to_le_bytes())).collect()
}
