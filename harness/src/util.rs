//! Small shared helpers: no-op-waker block_on, hashing, panic capture.
use std::cell::RefCell;
use std::future::Future;
use std::task::{Context, Poll, RawWaker, RawWakerVTable, Waker};

/// Drive a future that never really pends (no JS hooks exist natively).
pub fn block_on<F: Future>(f: F) -> F::Output {
    fn noop_raw() -> RawWaker {
        fn no(_: *const ()) {}
        fn cl(_: *const ()) -> RawWaker {
            noop_raw()
        }
        static VT: RawWakerVTable = RawWakerVTable::new(cl, no, no, no);
        RawWaker::new(std::ptr::null(), &VT)
    }
    let w = unsafe { Waker::from_raw(noop_raw()) };
    let mut cx = Context::from_waker(&w);
    let mut f = Box::pin(f);
    let mut spins = 0u32;
    loop {
        if let Poll::Ready(v) = f.as_mut().poll(&mut cx) {
            return v;
        }
        spins += 1;
        if spins > 1_000_000 {
            panic!("axverif: future pended 1e6 times (harness fault)");
        }
    }
}

pub fn mix64(mut x: u64) -> u64 {
    x = x.wrapping_add(0x9E3779B97F4A7C15);
    x = (x ^ (x >> 30)).wrapping_mul(0xBF58476D1CE4E5B9);
    x = (x ^ (x >> 27)).wrapping_mul(0x94D049BB133111EB);
    x ^ (x >> 31)
}

pub fn mix2(a: u64, b: u64) -> u64 {
    mix64(mix64(a) ^ b.wrapping_mul(0xD6E8FEB86659FD93))
}

/// FNV-1a style streaming hasher (deterministic across processes, unlike RandomState).
#[derive(Clone, Copy)]
pub struct Fnv(pub u64);
impl Default for Fnv {
    fn default() -> Self {
        Fnv(0xcbf29ce484222325)
    }
}
impl Fnv {
    pub fn new() -> Self {
        Self::default()
    }
    pub fn bytes(&mut self, b: &[u8]) -> &mut Self {
        for x in b {
            self.0 ^= *x as u64;
            self.0 = self.0.wrapping_mul(0x100000001b3);
        }
        self
    }
    pub fn u64(&mut self, v: u64) -> &mut Self {
        self.bytes(&v.to_le_bytes())
    }
    pub fn str(&mut self, s: &str) -> &mut Self {
        self.bytes(s.as_bytes());
        self.bytes(&[0xff])
    }
    pub fn finish(&self) -> u64 {
        mix64(self.0)
    }
}

pub fn hash_str(s: &str) -> u64 {
    Fnv::new().str(s).finish()
}

pub fn hex(b: &[u8]) -> String {
    let mut s = String::with_capacity(b.len() * 2);
    for x in b {
        s.push_str(&format!("{:02x}", x));
    }
    s
}

pub fn unhex(s: &str) -> Vec<u8> {
    let s: Vec<u8> = s.bytes().filter(|c| c.is_ascii_hexdigit()).collect();
    s.chunks(2)
        .map(|c| u8::from_str_radix(std::str::from_utf8(c).unwrap(), 16).unwrap())
        .collect()
}

thread_local! {
    static LAST_PANIC: RefCell<Option<(String, String)>> = RefCell::new(None);
}

/// Install a panic hook that records `file:line` and the message instead of printing.
pub fn install_panic_hook() {
    std::panic::set_hook(Box::new(|info| {
        let loc = info
            .location()
            .map(|l| format!("{}:{}", l.file(), l.line()))
            .unwrap_or_else(|| "?".into());
        let msg = if let Some(s) = info.payload().downcast_ref::<&str>() {
            s.to_string()
        } else if let Some(s) = info.payload().downcast_ref::<String>() {
            s.clone()
        } else {
            "<non-string panic payload>".to_string()
        };
        LAST_PANIC.with(|p| *p.borrow_mut() = Some((loc, msg)));
    }));
}

#[derive(Debug, Clone)]
pub struct PanicInfo {
    pub location: String,
    pub message: String,
}

impl PanicInfo {
    /// Source file of the panic site, without the line (signature component).
    pub fn file(&self) -> String {
        let f = self.location.rsplit_once(':').map(|x| x.0).unwrap_or(&self.location);
        // keep the path relative to the crate (strip absolute prefix)
        match f.find("/src/") {
            Some(i) if f.starts_with('/') => f[i + 1..].to_string(),
            _ => f.to_string(),
        }
    }
    /// Message with numbers and register-like tokens normalised, first 48 chars.
    pub fn norm_message(&self) -> String {
        let first = self.message.lines().next().unwrap_or("");
        let mut out = String::new();
        let mut tok = String::new();
        let flush = |tok: &mut String, out: &mut String| {
            if tok.is_empty() {
                return;
            }
            let all_digit = tok.chars().all(|c| c.is_ascii_digit());
            let hexish = tok.starts_with("0x");
            let reglike = tok.len() >= 2 && tok.len() <= 5 && tok.chars().all(|c| c.is_ascii_uppercase() || c.is_ascii_digit()) && tok.chars().any(|c| c.is_ascii_uppercase());
            if all_digit || hexish {
                out.push('#');
            } else if reglike {
                out.push_str("REG");
            } else {
                out.push_str(tok);
            }
            tok.clear();
        };
        for c in first.chars() {
            if c.is_ascii_alphanumeric() || c == '_' {
                tok.push(c);
            } else {
                flush(&mut tok, &mut out);
                out.push(c);
            }
        }
        flush(&mut tok, &mut out);
        out.chars().take(56).collect()
    }
    pub fn signature(&self) -> String {
        format!("panic@{}|{}", self.file(), self.norm_message())
    }
}

/// Run `f` catching unwinds; returns Err(PanicInfo) if it panicked.
pub fn catch<R>(f: impl FnOnce() -> R) -> Result<R, PanicInfo> {
    LAST_PANIC.with(|p| *p.borrow_mut() = None);
    match std::panic::catch_unwind(std::panic::AssertUnwindSafe(f)) {
        Ok(r) => Ok(r),
        Err(_) => {
            let (location, message) = LAST_PANIC
                .with(|p| p.borrow_mut().take())
                .unwrap_or_else(|| ("?".into(), "<panic without hook record>".into()));
            Err(PanicInfo { location, message })
        }
    }
}

/// Was this panic raised by the harness's own code (a harness fault, exit 2) rather than by the
/// code under test? Harness files are compiled with crate-relative paths (`src/...`), the
/// repository as a path dependency with absolute ones (`/repo/src/...`), std with `/rustc/...`.
pub fn panic_in_harness(p: &PanicInfo) -> bool {
    p.location.starts_with("src/")
}

// ---------------------------------------------------------------------------------------------
// counting allocator (DESIGN 2.5): records the largest single allocation request; never fails
// by itself — failure is left to the real allocator.
use std::alloc::{GlobalAlloc, Layout, System};
use std::sync::atomic::{AtomicUsize, Ordering};

pub struct CountingAlloc;
pub static MAX_REQUEST: AtomicUsize = AtomicUsize::new(0);

unsafe impl GlobalAlloc for CountingAlloc {
    unsafe fn alloc(&self, l: Layout) -> *mut u8 {
        MAX_REQUEST.fetch_max(l.size(), Ordering::Relaxed);
        System.alloc(l)
    }
    unsafe fn dealloc(&self, p: *mut u8, l: Layout) {
        System.dealloc(p, l)
    }
    unsafe fn alloc_zeroed(&self, l: Layout) -> *mut u8 {
        MAX_REQUEST.fetch_max(l.size(), Ordering::Relaxed);
        System.alloc_zeroed(l)
    }
    unsafe fn realloc(&self, p: *mut u8, l: Layout, n: usize) -> *mut u8 {
        MAX_REQUEST.fetch_max(n, Ordering::Relaxed);
        System.realloc(p, l, n)
    }
}

#[global_allocator]
static GLOBAL: CountingAlloc = CountingAlloc;

pub fn reset_max_request() {
    MAX_REQUEST.store(0, Ordering::Relaxed);
}
pub fn max_request() -> usize {
    MAX_REQUEST.load(Ordering::Relaxed)
}
