//! axverif <ID> [--tier quick|thorough] [--seed N] [--cases N] [--workers N] [--evidence PATH]
//! axverif <ID> --replay FILE
//! axverif forms [--per-form N]        (compute the implemented-forms floor on the current tree)
use axverif::props;
use axverif::sup::{self, Property, RunCfg, Tier};

fn arg(args: &[String], name: &str) -> Option<String> {
    args.iter().position(|a| a == name).and_then(|i| args.get(i + 1).cloned())
}

fn drive<P: Property>(mut p: P, args: &[String]) -> i32 {
    if let Some(f) = arg(args, "--replay") {
        return sup::replay(&mut p, &f);
    }
    let tier = match arg(args, "--tier").or_else(|| std::env::var("VERIF_TIER").ok()).as_deref() {
        Some("thorough") => Tier::Thorough,
        _ => Tier::Quick,
    };
    let seed = arg(args, "--seed").or_else(|| std::env::var("VERIF_SEED").ok()).and_then(|s| s.trim().parse::<i128>().ok()).map(|v| v as u64).unwrap_or(0);
    let workers = arg(args, "--workers").and_then(|s| s.parse().ok()).unwrap_or_else(|| {
        let n = std::thread::available_parallelism().map(|n| n.get()).unwrap_or(4);
        n.saturating_sub(2).clamp(1, 14)
    });
    let cfg = RunCfg { tier, seed, workers, cases_override: arg(args, "--cases").and_then(|s| s.parse().ok()), evidence_path: arg(args, "--evidence") };
    sup::run(&mut p, &cfg).exit_code
}

fn main() {
    let args: Vec<String> = std::env::args().collect();
    if args.len() < 2 {
        eprintln!("usage: axverif <C01..C20|forms> [options]");
        std::process::exit(2);
    }
    let rest = &args[2..];
    let code = match args[1].as_str() {
        "C01" => drive(props::nat::NatProp::new(props::nat::Which::C01), rest),
        "C02" => drive(props::nat::NatProp::new(props::nat::Which::C02), rest),
        "C03" => drive(props::nat::NatProp::new(props::nat::Which::C03), rest),
        "C04" => drive(props::nat::NatProp::new(props::nat::Which::C04), rest),
        "C05" => drive(props::nat::NatProp::new(props::nat::Which::C05), rest),
        "C06" => drive(props::nat::NatProp::new(props::nat::Which::C06), rest),
        "C07" => drive(props::c07::C07, rest),
        "C08" => drive(props::c08::C08, rest),
        "C09" => drive(props::c09::C09::new(), rest),
        "C10" => drive(props::c10::C10, rest),
        "C11" => drive(props::c11::C11, rest),
        "C12" => drive(props::c12::C12, rest),
        "C13" => drive(props::c13::C13, rest),
        "C14" => drive(props::c14::C14, rest),
        "C15" => drive(props::c15::C15, rest),
        "C16" => drive(props::c16::C16::new(), rest),
        "C17" => drive(props::c17::C17, rest),
        "C18" => drive(props::c18::C18, rest),
        "C20" => drive(props::c20::C20::new(), rest),
        "c20-digest" => props::c20::digest_main(),
        "C19" => drive(props::c19::C19::new(), rest),
        "emit-corpus" => {
            // emit-corpus <elf|step> <dir> <n> <seed>: starting corpus for the libFuzzer targets
            let kind = rest.first().cloned().unwrap_or_default();
            let dir = rest.get(1).cloned().unwrap_or_else(|| "/verif/target/fuzz-corpus".into());
            let n: u64 = rest.get(2).and_then(|s| s.parse().ok()).unwrap_or(64);
            let seed: u64 = rest.get(3).and_then(|s| s.parse().ok()).unwrap_or(0);
            let _ = std::fs::create_dir_all(&dir);
            for i in 0..n {
                let tree = axverif::tape::new_tree(&axverif::tape::Shape::flat(200), axverif::util::mix2(seed ^ 0xC0, i));
                let tv = tree.current();
                if let Some(id) = kind.strip_prefix("tape:") {
                    // a random tape of the property's own shape
                    let shape = axverif::props::shape_of(id).expect("emit-corpus tape:<ID>: unknown property");
                    let tv = axverif::tape::new_tree(&shape, axverif::util::mix2(seed ^ 0xC1, i)).current();
                    let _ = std::fs::write(format!("{}/gen-{:04}", dir, i), axverif::tape::tape_to_raw(&tv));
                    continue;
                }
                let bytes: Vec<u8> = if kind == "elf" {
                    let mut t = axverif::tape::Tape::new(&tv[0]);
                    axverif::elfb::build(&axverif::elfb::gen_desc(&mut t)).0
                } else {
                    tv[0].iter().take(128).flat_map(|w| w.to_le_bytes()).collect()
                };
                let _ = std::fs::write(format!("{}/gen-{:04}", dir, i), bytes);
            }
            if kind == "elf" {
                for f in axverif::props::c15::TESTDATA.iter() {
                    if let Ok(b) = std::fs::read(format!("/repo/testdata/{}", f)) {
                        if b.len() < (1 << 16) {
                            let _ = std::fs::write(format!("{}/{}", dir, f), b);
                        }
                    }
                }
            }
            0
        }
        "forms" => axverif::props::nat::forms_census(arg(rest, "--per-form").and_then(|s| s.parse().ok()).unwrap_or(400)),
        other => {
            eprintln!("unknown property {}", other);
            2
        }
    };
    std::process::exit(code);
}
