//! Supervisor + forked workers (DESIGN 2.5), evidence writer, replay files, known-finding filter.
//!
//! A run is a pure function of (tree, VERIF_SEED, tier): case `i` of property `P` is generated from
//! `mix(seed, P, i)` by a proptest strategy; workers take interleaved slices of the index space.
use crate::kf::KnownFindings;
use crate::tape::{self, Shape, TapeVal};
use crate::util::{self, mix2};
use serde::de::DeserializeOwned;
use serde::{Deserialize, Serialize};
use serde_json::{json, Value};
use std::collections::{BTreeMap, HashSet};
use std::io::Write;
use std::time::{Duration, Instant};

#[derive(Clone, Copy, Debug, PartialEq, Eq)]
pub enum Tier {
    Quick,
    Thorough,
}
impl Tier {
    pub fn name(&self) -> &'static str {
        match self {
            Tier::Quick => "quick",
            Tier::Thorough => "thorough",
        }
    }
}

#[derive(Debug, Clone)]
pub enum Verdict {
    Pass,
    /// case outside the property's domain (counted with a reason, never silently)
    Discard(String),
    /// matches the expected-deviation model of a listed known finding (id)
    Known(String),
    Fail { sig: String, msg: String },
}

#[derive(Debug, Clone)]
pub struct CaseOut {
    pub verdict: Verdict,
    pub nontrivial: bool,
    pub fp: u64,
    pub classes: Vec<String>,
}
impl CaseOut {
    pub fn pass(nontrivial: bool, fp: u64) -> CaseOut {
        CaseOut { verdict: Verdict::Pass, nontrivial, fp, classes: vec![] }
    }
    pub fn discard(why: &str) -> CaseOut {
        CaseOut { verdict: Verdict::Discard(why.to_string()), nontrivial: false, fp: 0, classes: vec![] }
    }
    pub fn fail(sig: String, msg: String) -> CaseOut {
        CaseOut { verdict: Verdict::Fail { sig, msg }, nontrivial: true, fp: 0, classes: vec![] }
    }
    pub fn class(mut self, c: impl Into<String>) -> CaseOut {
        self.classes.push(c.into());
        self
    }
}

pub trait Property {
    type Case: Serialize + DeserializeOwned + Clone;
    fn id(&self) -> &'static str;
    fn shape(&self) -> Shape;
    fn cases(&self, tier: Tier) -> u64;
    /// once per worker process, after fork (map arenas, install handlers …)
    fn setup(&mut self) {}
    fn decode(&mut self, tape: &TapeVal) -> Self::Case;
    fn exec(&mut self, case: &Self::Case) -> CaseOut;
    /// deterministic enumerated cases run in addition to the random ones (exhaustive sub-spaces)
    fn fixed_cases(&mut self, _tier: Tier) -> Vec<Self::Case> {
        vec![]
    }
    /// human-readable rendering of a case for samples / replay files
    fn render(&mut self, case: &Self::Case) -> Value {
        serde_json::to_value(case).unwrap_or(Value::Null)
    }
    fn rule(&self) -> String;
    /// histogram classes that must be non-empty, else the run is inconclusive (exit 2)
    fn required_classes(&self, _tier: Tier) -> Vec<String> {
        vec![]
    }
    fn assumptions(&self) -> Vec<String> {
        vec![]
    }
    /// does the property itself claim termination (then a reproduced hang is a violation)?
    fn claims_termination(&self) -> bool {
        false
    }
    /// called in the supervisor after all workers finished: global postconditions over the
    /// aggregated histogram (e.g. "every floor form executed at least once"). Returns failures.
    fn post_check(&mut self, _hist: &BTreeMap<String, u64>, _tier: Tier) -> Vec<(String, String)> {
        vec![]
    }
    fn extra_coverage(&self, _hist: &BTreeMap<String, u64>) -> Value {
        Value::Null
    }
    /// per-case watchdog in seconds
    fn watchdog_s(&self) -> u64 {
        10
    }
    /// build a case from a raw fuzzer input (libFuzzer artifact), if the property has a byte-level target
    fn case_from_raw(&mut self, raw: &[u8]) -> Option<Self::Case> {
        // default: the bytes are a choice tape of this property's shape (libFuzzer target `model_tape`)
        let shape = self.shape();
        Some(self.decode(&crate::tape::tape_from_raw(&shape, raw)))
    }
}

// ---------------------------------------------------------------------------------------------
// shared memory block per worker

const FP_CAP: usize = 1 << 21; // 2M fingerprints per worker (16 MiB), beyond that: lower bound

#[repr(C)]
struct Shm {
    heartbeat: u64, // index of the case being executed (+1), 0 = not started
    phase: u64,     // 0 random, 1 fixed, 2 regress
    nfp: u64,
    saturated: u64,
    /// 1 while the worker is shrinking a failure (the heartbeat case is then not the one executing)
    shrinking: u64,
    fps: [u64; FP_CAP],
}

unsafe fn shm_alloc() -> *mut Shm {
    let p = libc::mmap(
        std::ptr::null_mut(),
        std::mem::size_of::<Shm>(),
        libc::PROT_READ | libc::PROT_WRITE,
        libc::MAP_SHARED | libc::MAP_ANONYMOUS,
        -1,
        0,
    );
    assert!(p != libc::MAP_FAILED, "shm mmap failed");
    p as *mut Shm
}

#[derive(Serialize, Deserialize, Default, Debug)]
struct WorkerSummary {
    evals: u64,
    discards: BTreeMap<String, u64>,
    known: BTreeMap<String, u64>,
    classes: BTreeMap<String, u64>,
    samples: Vec<Value>,
    nontrivial: u64,
    harness_faults: Vec<String>,
}

#[derive(Serialize, Deserialize, Debug, Clone)]
pub struct Failure {
    pub sig: String,
    pub msg: String,
    pub replay: String,
    pub case_index: i64,
}

#[derive(Serialize, Deserialize, Debug)]
enum Msg {
    Fail(Failure),
    Summary(WorkerSummary),
}

pub struct RunCfg {
    pub tier: Tier,
    pub seed: u64,
    pub workers: usize,
    pub cases_override: Option<u64>,
    pub evidence_path: Option<String>,
}

pub fn replay_dir() -> String {
    std::env::var("AXVERIF_REPLAY_DIR").unwrap_or_else(|_| "/verif/replays/found".to_string())
}
pub fn regress_dir(id: &str) -> String {
    format!("/verif/replays/regress/{}", id)
}

fn write_replay<P: Property>(p: &mut P, case: &P::Case, tape: Option<&TapeVal>, sig: &str, msg: &str, seed: u64, idx: i64) -> String {
    let dir = replay_dir();
    let _ = std::fs::create_dir_all(&dir);
    let path = format!("{}/{}-{:016x}.json", dir, p.id(), util::hash_str(sig));
    let v = json!({
        "property": p.id(),
        "signature": sig,
        "message": msg,
        "seed": seed,
        "case_index": idx,
        "case": serde_json::to_value(case).unwrap_or(Value::Null),
        "rendered": p.render(case),
        "tape": tape,
    });
    let _ = std::fs::write(&path, serde_json::to_string_pretty(&v).unwrap());
    path
}

/// Apply the known-findings filter to a raw case outcome.
fn filter(out: CaseOut, kf: &KnownFindings, id: &str) -> CaseOut {
    match &out.verdict {
        Verdict::Fail { sig, .. } => {
            if let Some(k) = kf.match_sig(id, sig) {
                CaseOut { verdict: Verdict::Known(k), ..out }
            } else {
                out
            }
        }
        Verdict::Known(k) => {
            if kf.is_listed_known(id, k) {
                out
            } else {
                // a deviation model whose finding is not (or no longer) listed is a plain failure
                CaseOut {
                    verdict: Verdict::Fail { sig: format!("deviation:{}", k), msg: format!("matches deviation model {} which is not listed as known", k) },
                    ..out
                }
            }
        }
        _ => out,
    }
}

fn exec_guarded<P: Property>(p: &mut P, case: &P::Case) -> CaseOut {
    // the property catches panics of the code under test itself; a panic escaping to here is a
    // harness fault unless it originated in the repository
    match util::catch(|| p.exec(case)) {
        Ok(o) => o,
        Err(pi) => {
            if util::panic_in_harness(&pi) {
                CaseOut::fail(format!("HARNESS-FAULT|{}", pi.location), format!("harness panicked: {} at {}", pi.message, pi.location))
            } else {
                CaseOut::fail(pi.signature(), format!("uncaught panic: {} at {}", pi.message, pi.location))
            }
        }
    }
}

/// Decode under catch_unwind: a panic in a generator is a harness fault, not a worker death.
fn decode_guarded<P: Property>(p: &mut P, t: &TapeVal) -> Result<P::Case, String> {
    util::catch(|| p.decode(t)).map_err(|pi| format!("generator panicked: {} at {}", pi.message, pi.location))
}

fn case_seed(seed: u64, id: &str, idx: u64) -> u64 {
    mix2(mix2(seed, util::hash_str(id)), idx)
}

unsafe fn worker_main<P: Property>(p: &mut P, cfg: &RunCfg, w: usize, start_after: Option<(u64, u64)>, total: u64, shm: *mut Shm, fd: i32, kf: &KnownFindings) -> ! {
    util::install_panic_hook();
    let mut out = std::fs::File::from_raw_fd_(fd);
    p.setup();
    let shape = p.shape();
    let mut sum = WorkerSummary::default();
    let mut seen_sigs: HashSet<String> = HashSet::new();
    let mut local_fp: HashSet<u64> = HashSet::new();
    let nworkers = cfg.workers as u64;
    let max_samples = 6usize;

    let mut record = |shm: *mut Shm, p: &mut P, sum: &mut WorkerSummary, o: &CaseOut, case: &P::Case| {
        sum.evals += 1;
        for c in &o.classes {
            *sum.classes.entry(c.clone()).or_insert(0) += 1;
        }
        if o.nontrivial && !matches!(o.verdict, Verdict::Discard(_)) {
            sum.nontrivial += 1;
            if local_fp.insert(o.fp) {
                let n = (*shm).nfp as usize;
                if n < FP_CAP {
                    (*shm).fps[n] = o.fp;
                    (*shm).nfp = (n + 1) as u64;
                } else {
                    (*shm).saturated = 1;
                }
                if sum.samples.len() < max_samples && (n % 97 == 0 || n < 2) {
                    sum.samples.push(p.render(case));
                }
            }
        }
    };

    // phase 2: regression replays, phase 1: fixed cases — only on worker 0 / split by index
    let (skip_phase, skip_idx) = start_after.map(|(ph, i)| (ph, i as i64)).unwrap_or((99, -1));
    // --- regression tier (worker 0 only)
    if w == 0 && (start_after.is_none() || skip_phase == 2) {
        (*shm).phase = 2;
        let dir = regress_dir(p.id());
        let mut files: Vec<String> = std::fs::read_dir(&dir)
            .map(|rd| rd.filter_map(|e| e.ok()).map(|e| e.path().to_string_lossy().to_string()).filter(|s| s.ends_with(".json")).collect())
            .unwrap_or_default();
        files.sort();
        for (i, f) in files.iter().enumerate() {
            if skip_phase == 2 && (i as i64) <= skip_idx {
                continue;
            }
            std::ptr::write_volatile(&mut (*shm).heartbeat, i as u64 + 1);
            let txt = match std::fs::read_to_string(f) {
                Ok(t) => t,
                Err(_) => continue,
            };
            let v: Value = match serde_json::from_str(&txt) {
                Ok(v) => v,
                Err(e) => {
                    sum.harness_faults.push(format!("regress file {} unreadable: {}", f, e));
                    continue;
                }
            };
            let case: P::Case = match serde_json::from_value(v["case"].clone()) {
                Ok(c) => c,
                Err(e) => {
                    sum.harness_faults.push(format!("regress file {} has no decodable case: {}", f, e));
                    continue;
                }
            };
            let o = filter(exec_guarded(p, &case), kf, p.id());
            let o = CaseOut { classes: { let mut c = o.classes.clone(); c.push("tier:regress".into()); c }, ..o };
            record(shm, p, &mut sum, &o, &case);
            match &o.verdict {
                Verdict::Fail { sig, msg } => {
                    if seen_sigs.insert(sig.clone()) {
                        let m = Msg::Fail(Failure { sig: sig.clone(), msg: format!("[regression {}] {}", f, msg), replay: f.clone(), case_index: -(i as i64) - 1 });
                        let _ = writeln!(out, "{}", serde_json::to_string(&m).unwrap());
                    }
                }
                Verdict::Known(k) => *sum.known.entry(k.clone()).or_insert(0) += 1,
                Verdict::Discard(r) => *sum.discards.entry(r.clone()).or_insert(0) += 1,
                Verdict::Pass => {}
            }
        }
    }
    // --- fixed cases (interleaved over workers)
    if start_after.is_none() || skip_phase >= 1 {
        (*shm).phase = 1;
        let fixed = p.fixed_cases(cfg.tier);
        for (i, case) in fixed.iter().enumerate() {
            if (i as u64) % nworkers != w as u64 {
                continue;
            }
            if skip_phase == 1 && (i as i64) <= skip_idx {
                continue;
            }
            std::ptr::write_volatile(&mut (*shm).heartbeat, i as u64 + 1);
            let o = filter(exec_guarded(p, case), kf, p.id());
            let o = CaseOut { classes: { let mut c = o.classes.clone(); c.push("tier:fixed".into()); c }, ..o };
            record(shm, p, &mut sum, &o, case);
            match &o.verdict {
                Verdict::Fail { sig, msg } => {
                    if seen_sigs.insert(sig.clone()) {
                        let path = write_replay(p, case, None, sig, msg, cfg.seed, i as i64);
                        let m = Msg::Fail(Failure { sig: sig.clone(), msg: msg.clone(), replay: path, case_index: i as i64 });
                        let _ = writeln!(out, "{}", serde_json::to_string(&m).unwrap());
                    }
                }
                Verdict::Known(k) => *sum.known.entry(k.clone()).or_insert(0) += 1,
                Verdict::Discard(r) => *sum.discards.entry(r.clone()).or_insert(0) += 1,
                Verdict::Pass => {}
            }
        }
    }
    // --- random cases
    (*shm).phase = 0;
    let mut idx = w as u64;
    if skip_phase == 0 {
        idx = skip_idx as u64 + nworkers;
    }
    while idx < total {
        std::ptr::write_volatile(&mut (*shm).heartbeat, idx + 1);
        let cs = case_seed(cfg.seed, p.id(), idx);
        let tree = tape::new_tree(&shape, cs);
        let tapev = tree.current();
        let case = match decode_guarded(p, &tapev) {
            Ok(c) => c,
            Err(e) => {
                if sum.harness_faults.len() < 3 {
                    sum.harness_faults.push(format!("case {}: {}", idx, e));
                }
                idx += nworkers;
                continue;
            }
        };
        let o = filter(exec_guarded(p, &case), kf, p.id());
        record(shm, p, &mut sum, &o, &case);
        match &o.verdict {
            Verdict::Fail { sig, msg } => {
                if seen_sigs.insert(sig.clone()) && seen_sigs.len() <= 8 {
                    // shrink: the same signature must persist (never shrink into a different or known failure)
                    let sig0 = sig.clone();
                    let cand_path = format!("{}/{}-cand-w{}.json", replay_dir(), p.id(), w);
                    let _ = std::fs::create_dir_all(replay_dir());
                    std::ptr::write_volatile(&mut (*shm).shrinking, 1);
                    let (best, _iters) = tape::shrink(
                        tree,
                        |t| {
                            let c = match decode_guarded(p, t) {
                                Ok(c) => c,
                                Err(_) => return false,
                            };
                            if p.claims_termination() {
                                // remember the candidate: if it never returns, the supervisor re-runs exactly it
                                let v = json!({"property": p.id(), "signature": "shrink candidate (written before it ran)", "case": serde_json::to_value(&c).unwrap_or(Value::Null)});
                                let _ = std::fs::write(&cand_path, serde_json::to_string(&v).unwrap());
                            }
                            match filter(exec_guarded(p, &c), kf, p.id()).verdict {
                                Verdict::Fail { sig, .. } => sig == sig0,
                                _ => false,
                            }
                        },
                        1500,
                    );
                    std::ptr::write_volatile(&mut (*shm).shrinking, 0);
                    let bc = decode_guarded(p, &best).unwrap_or_else(|_| case.clone());
                    let bmsg = match filter(exec_guarded(p, &bc), kf, p.id()).verdict {
                        Verdict::Fail { msg, .. } => msg,
                        _ => msg.clone(),
                    };
                    let path = write_replay(p, &bc, Some(&best), &sig0, &bmsg, cfg.seed, idx as i64);
                    let m = Msg::Fail(Failure { sig: sig0, msg: bmsg, replay: path, case_index: idx as i64 });
                    let _ = writeln!(out, "{}", serde_json::to_string(&m).unwrap());
                }
            }
            Verdict::Known(k) => *sum.known.entry(k.clone()).or_insert(0) += 1,
            Verdict::Discard(r) => *sum.discards.entry(r.clone()).or_insert(0) += 1,
            Verdict::Pass => {}
        }
        idx += nworkers;
    }
    std::ptr::write_volatile(&mut (*shm).heartbeat, 0);
    let _ = writeln!(out, "{}", serde_json::to_string(&Msg::Summary(sum)).unwrap());
    let _ = out.flush();
    libc::_exit(0);
}

trait FromRawFdExt {
    unsafe fn from_raw_fd_(fd: i32) -> Self;
}
impl FromRawFdExt for std::fs::File {
    unsafe fn from_raw_fd_(fd: i32) -> Self {
        use std::os::unix::io::FromRawFd;
        std::fs::File::from_raw_fd(fd)
    }
}

struct Child {
    pid: i32,
    fd: i32,
    buf: Vec<u8>,
    shm: *mut Shm,
    last_hb: (u64, u64),
    last_change: Instant,
    done: bool,
    w: usize,
}

unsafe fn spawn<P: Property>(p: &mut P, cfg: &RunCfg, w: usize, start_after: Option<(u64, u64)>, total: u64, shm: *mut Shm, kf: &KnownFindings) -> Child {
    let mut fds = [0i32; 2];
    assert_eq!(libc::pipe(fds.as_mut_ptr()), 0);
    std::ptr::write_volatile(&mut (*shm).heartbeat, 0);
    std::ptr::write_volatile(&mut (*shm).shrinking, 0);
    let pid = libc::fork();
    assert!(pid >= 0, "fork failed");
    if pid == 0 {
        libc::close(fds[0]);
        worker_main(p, cfg, w, start_after, total, shm, fds[1], kf);
    }
    libc::close(fds[1]);
    let fl = libc::fcntl(fds[0], libc::F_GETFL);
    libc::fcntl(fds[0], libc::F_SETFL, fl | libc::O_NONBLOCK);
    Child { pid, fd: fds[0], buf: vec![], shm, last_hb: (0, 0), last_change: Instant::now(), done: false, w }
}

/// Run one case alone in a forked child with a wall-clock budget.
/// Returns Ok(CaseOut-ish) | Err("hang") | Err("signal N")
fn solo_replay_path(id: &str, phase: u64, idx: u64) -> String {
    format!("{}/{}-solo-{}-{}.json", replay_dir(), id, phase, idx)
}

unsafe fn solo<P: Property>(p: &mut P, cfg: &RunCfg, phase: u64, idx: u64, budget: Duration, kf: &KnownFindings) -> Result<Option<(String, String)>, String> {
    solo_from(p, cfg, phase, idx, budget, kf, None)
}

/// `case_file`: run the case stored in this JSON file instead of regenerating case (phase, idx).
unsafe fn solo_from<P: Property>(p: &mut P, cfg: &RunCfg, phase: u64, idx: u64, budget: Duration, kf: &KnownFindings, case_file: Option<&str>) -> Result<Option<(String, String)>, String> {
    let mut fds = [0i32; 2];
    assert_eq!(libc::pipe(fds.as_mut_ptr()), 0);
    let pid = libc::fork();
    if pid == 0 {
        libc::close(fds[0]);
        util::install_panic_hook();
        p.setup();
        let from_file: Option<P::Case> = case_file.and_then(|f| std::fs::read_to_string(f).ok()).and_then(|t| serde_json::from_str::<Value>(&t).ok()).and_then(|v| serde_json::from_value(v["case"].clone()).ok());
        let case = match phase {
            _ if from_file.is_some() => from_file,
            0 => {
                let tree = tape::new_tree(&p.shape(), case_seed(cfg.seed, p.id(), idx));
                decode_guarded(p, &tree.current()).ok()
            }
            1 => p.fixed_cases(cfg.tier).get(idx as usize).cloned(),
            _ => None,
        };
        let mut f = std::fs::File::from_raw_fd_(fds[1]);
        if let Some(c) = case {
            // the replay file is written *before* the case runs, so that it exists even if this process dies
            let _ = std::fs::create_dir_all(replay_dir());
            let v = json!({"property": p.id(), "signature": "process-death-or-hang (written before the solo re-run)", "seed": cfg.seed, "case_index": idx,
                "case": serde_json::to_value(&c).unwrap_or(Value::Null), "rendered": p.render(&c)});
            let _ = std::fs::write(solo_replay_path(p.id(), phase, idx), serde_json::to_string_pretty(&v).unwrap());
            let o = filter(exec_guarded(p, &c), kf, p.id());
            let s = match o.verdict {
                Verdict::Fail { sig, msg } => json!({"sig": sig, "msg": msg}),
                _ => json!({}),
            };
            let _ = writeln!(f, "{}", s);
        } else {
            let _ = writeln!(f, "{{}}");
        }
        let _ = f.flush();
        libc::_exit(0);
    }
    libc::close(fds[1]);
    let t0 = Instant::now();
    let mut status = 0i32;
    loop {
        let r = libc::waitpid(pid, &mut status, libc::WNOHANG);
        if r == pid {
            break;
        }
        if t0.elapsed() > budget {
            libc::kill(pid, libc::SIGKILL);
            libc::waitpid(pid, &mut status, 0);
            libc::close(fds[0]);
            return Err("hang".into());
        }
        std::thread::sleep(Duration::from_millis(5));
    }
    let mut buf = vec![0u8; 1 << 16];
    let n = libc::read(fds[0], buf.as_mut_ptr() as *mut libc::c_void, buf.len());
    libc::close(fds[0]);
    if libc::WIFSIGNALED(status) {
        return Err(format!("signal {}", libc::WTERMSIG(status)));
    }
    if libc::WIFEXITED(status) && libc::WEXITSTATUS(status) != 0 {
        return Err(format!("exit {}", libc::WEXITSTATUS(status)));
    }
    let txt = String::from_utf8_lossy(&buf[..n.max(0) as usize]).to_string();
    let v: Value = serde_json::from_str(txt.trim()).unwrap_or(Value::Null);
    if let (Some(s), Some(m)) = (v["sig"].as_str(), v["msg"].as_str()) {
        Ok(Some((s.to_string(), m.to_string())))
    } else {
        Ok(None)
    }
}

pub struct Outcome {
    pub exit_code: i32,
}

pub fn run<P: Property>(p: &mut P, cfg: &RunCfg) -> Outcome {
    let t0 = Instant::now();
    let kf = KnownFindings::load();
    let id = p.id();
    // AXVERIF_CASES_DIV=n (drills only): a fraction of the tier's fixed work
    let div = std::env::var("AXVERIF_CASES_DIV").ok().and_then(|s| s.parse::<u64>().ok()).filter(|d| *d > 0).unwrap_or(1);
    let total = cfg.cases_override.unwrap_or_else(|| p.cases(cfg.tier) / div);
    let nw = cfg.workers.max(1);
    let mut failures: Vec<Failure> = vec![];
    let mut inconclusive: Vec<String> = vec![];
    let mut agg = WorkerSummary::default();
    let mut all_fp: HashSet<u64> = HashSet::new();
    let mut saturated = false;
    let mut hangs_ignored = 0u64;
    let mut aborted = false;

    unsafe {
        let mut children: Vec<Child> = (0..nw)
            .map(|w| {
                let shm = shm_alloc();
                spawn(p, cfg, w, None, total, shm, &kf)
            })
            .collect();
        let wd = Duration::from_secs(p.watchdog_s());
        let mut respawns = 0usize;
        let mut abort_all = false;
        let mut watchdog_events = 0u32;
        loop {
            if abort_all {
                for c in children.iter_mut() {
                    if !c.done {
                        libc::kill(c.pid, libc::SIGKILL);
                        let mut st = 0i32;
                        libc::waitpid(c.pid, &mut st, 0);
                        c.done = true;
                    }
                }
                if failures.iter().any(|f| f.sig.starts_with("hang|")) {
                    inconclusive.clear();
                }
                aborted = true;
                break;
            }
            let mut alive = 0;
            for ci in 0..children.len() {
                if abort_all {
                    break;
                }
                if children[ci].done {
                    continue;
                }
                alive += 1;
                // drain pipe
                let mut tmp = [0u8; 65536];
                loop {
                    let n = libc::read(children[ci].fd, tmp.as_mut_ptr() as *mut libc::c_void, tmp.len());
                    if n > 0 {
                        children[ci].buf.extend_from_slice(&tmp[..n as usize]);
                    } else {
                        break;
                    }
                }
                let hb = (std::ptr::read_volatile(&(*children[ci].shm).phase), std::ptr::read_volatile(&(*children[ci].shm).heartbeat));
                if hb != children[ci].last_hb {
                    children[ci].last_hb = hb;
                    children[ci].last_change = Instant::now();
                }
                let mut status = 0i32;
                let r = libc::waitpid(children[ci].pid, &mut status, libc::WNOHANG);
                let mut died: Option<String> = None;
                if r == children[ci].pid {
                    // final drain
                    loop {
                        let n = libc::read(children[ci].fd, tmp.as_mut_ptr() as *mut libc::c_void, tmp.len());
                        if n > 0 {
                            children[ci].buf.extend_from_slice(&tmp[..n as usize]);
                        } else {
                            break;
                        }
                    }
                    if libc::WIFSIGNALED(status) {
                        died = Some(format!("signal {}", libc::WTERMSIG(status)));
                    } else if libc::WEXITSTATUS(status) != 0 {
                        died = Some(format!("exit {}", libc::WEXITSTATUS(status)));
                    } else {
                        children[ci].done = true;
                    }
                } else if hb.1 != 0 && children[ci].last_change.elapsed() > wd {
                    libc::kill(children[ci].pid, libc::SIGKILL);
                    libc::waitpid(children[ci].pid, &mut status, 0);
                    died = Some("watchdog".into());
                }
                if let Some(why) = died {
                    if std::env::var("AXVERIF_DEBUG").is_ok() {
                        eprintln!("[sup] worker {} {} at phase {} heartbeat {} shrinking {}", children[ci].w, why, hb.0, hb.1, std::ptr::read_volatile(&(*children[ci].shm).shrinking));
                    }
                    // attribute to the case in the heartbeat, re-run it alone, then respawn the worker after it
                    let (phase, hbv) = hb;
                    let w = children[ci].w;
                    libc::close(children[ci].fd);
                    // keep whatever the child managed to report (failure lines)
                    let partial = std::mem::take(&mut children[ci].buf);
                    parse_msgs(&partial, &mut failures, &mut agg, true);
                    if hbv == 0 {
                        inconclusive.push(format!("worker {} died outside a case ({})", w, why));
                        children[ci].done = true;
                        continue;
                    }
                    let idx = hbv - 1;
                    let was_shrinking = std::ptr::read_volatile(&(*children[ci].shm).shrinking) != 0;
                    let cand = format!("{}/{}-cand-w{}.json", replay_dir(), id, w);
                    watchdog_events += 1;
                    let solo_res = if was_shrinking && std::path::Path::new(&cand).exists() {
                        solo_from(p, cfg, phase, idx, Duration::from_secs(60), &kf, Some(&cand))
                    } else {
                        solo(p, cfg, phase, idx, Duration::from_secs(60), &kf)
                    };
                    if watchdog_events >= 12 {
                        inconclusive.push("12 worker deaths/watchdog events in one run; stopping early".into());
                        abort_all = true;
                    }
                    match solo_res {
                        Err(kind) => {
                            // reproduced abort / hang
                            let is_hang = kind == "hang";
                            let sig = if is_hang { "hang|step-or-api".to_string() } else { format!("abort|{}", kind) };
                            let sig = match kf.match_sig(id, &sig) {
                                Some(k) => {
                                    *agg.known.entry(k).or_insert(0) += 1;
                                    None
                                }
                                None => Some(sig),
                            };
                            if let Some(sig) = sig {
                                if is_hang && !p.claims_termination() {
                                    inconclusive.push(format!("case {}:{} hangs (reproduced) but {} does not claim termination", phase, idx, id));
                                } else if !failures.iter().any(|f| f.sig == sig) {
                                    // the solo child wrote the replay file before running the case
                                    let path = if was_shrinking && std::path::Path::new(&cand).exists() {
                                        let keep = format!("{}/{}-hang-{}.json", replay_dir(), id, idx);
                                        let _ = std::fs::copy(&cand, &keep);
                                        keep
                                    } else if phase == 2 {
                                        format!("{}/<regress #{}>", regress_dir(id), idx)
                                    } else {
                                        solo_replay_path(id, phase, idx)
                                    };
                                    failures.push(Failure { sig, msg: format!("worker process ended by {} while executing case {}", kind, idx), replay: path, case_index: idx as i64 });
                                    if is_hang {
                                        // a reproduced hang decides the run; every further one would cost the watchdog again
                                        abort_all = true;
                                    }
                                }
                            }
                        }
                        Ok(Some((sig, msg))) => {
                            // the solo run reports an ordinary failure (e.g. the worker was killed while shrinking)
                            if !failures.iter().any(|f| f.sig == sig) {
                                let path = solo_replay_path(id, phase, idx);
                                failures.push(Failure { sig, msg, replay: path, case_index: idx as i64 });
                            }
                        }
                        Ok(None) => {
                            hangs_ignored += 1; // did not reproduce: noise
                        }
                    }
                    respawns += 1;
                    if respawns > 200 {
                        inconclusive.push("more than 200 worker respawns; giving up".into());
                        children[ci].done = true;
                        continue;
                    }
                    let shm = children[ci].shm;
                    children[ci] = spawn(p, cfg, w, Some((phase, idx)), total, shm, &kf);
                }
            }
            if alive == 0 && !abort_all {
                break;
            }
            std::thread::sleep(Duration::from_millis(2));
        }
        for c in &mut children {
            let buf = std::mem::take(&mut c.buf);
            let got = parse_msgs(&buf, &mut failures, &mut agg, false);
            if !got && !aborted {
                inconclusive.push(format!("worker {} ended without a summary", c.w));
            }
            libc::close(c.fd);
            let n = (*c.shm).nfp as usize;
            for i in 0..n.min(FP_CAP) {
                all_fp.insert((*c.shm).fps[i]);
            }
            if (*c.shm).saturated != 0 {
                saturated = true;
            }
            libc::munmap(c.shm as *mut libc::c_void, std::mem::size_of::<Shm>());
        }
    }

    for hf in &agg.harness_faults {
        inconclusive.push(hf.clone());
    }
    // harness faults reported as failures are inconclusive, not violations
    let (hfaults, mut failures): (Vec<Failure>, Vec<Failure>) = failures.into_iter().partition(|f| f.sig.starts_with("HARNESS-FAULT"));
    for h in hfaults {
        inconclusive.push(format!("{}: {}", h.sig, h.msg));
    }
    // global post-conditions
    for (sig, msg) in p.post_check(&agg.classes, cfg.tier) {
        match kf.match_sig(id, &sig) {
            Some(k) => *agg.known.entry(k).or_insert(0) += 1,
            None => failures.push(Failure { sig, msg, replay: "<aggregate>".into(), case_index: -1 }),
        }
    }
    // dedupe failures by signature
    let mut seen = HashSet::new();
    failures.retain(|f| seen.insert(f.sig.clone()));
    // required classes
    for rc in p.required_classes(cfg.tier) {
        if agg.classes.get(&rc).copied().unwrap_or(0) == 0 {
            inconclusive.push(format!("required class '{}' is empty", rc));
        }
    }

    let wall = t0.elapsed().as_secs_f64();
    let distinct = all_fp.len() as u64;
    let mut rule = p.rule();
    if saturated {
        rule.push_str(" [distinct_nontrivial is a lower bound: a worker's fingerprint table saturated]");
    }
    let mut coverage = json!({
        "evaluations": agg.evals,
        "distinct_nontrivial": distinct,
        "nontrivial_total": agg.nontrivial,
        "rule": rule,
        "samples": agg.samples.iter().take(8).collect::<Vec<_>>(),
        "classes": agg.classes,
        "discarded": agg.discards,
        "known_findings_observed": agg.known,
        "unreproduced_watchdog_events": hangs_ignored,
        "workers": nw,
        "random_cases_requested": total,
        "inconclusive_reasons": inconclusive,
        "failures": failures.iter().map(|f| json!({"signature": f.sig, "message": f.msg.chars().take(600).collect::<String>(), "replay": f.replay})).collect::<Vec<_>>(),
    });
    let extra = p.extra_coverage(&agg.classes);
    if let (Some(obj), Some(ex)) = (coverage.as_object_mut(), extra.as_object()) {
        for (k, v) in ex {
            obj.insert(k.clone(), v.clone());
        }
    }
    let ev = json!({
        "property_id": id,
        "tier": cfg.tier.name(),
        "seed": cfg.seed,
        "level": "exploration",
        "coverage": coverage,
        "assumptions": p.assumptions(),
        "wall_s": wall,
        "violations": failures.len(),
    });
    // AXVERIF_EVIDENCE_DIR: drills against deliberately broken trees must not overwrite the real evidence
    let evdir = std::env::var("AXVERIF_EVIDENCE_DIR").unwrap_or_else(|_| "/verif/evidence".to_string());
    let evpath = cfg.evidence_path.clone().unwrap_or_else(|| format!("{}/{}.json", evdir, id));
    let _ = std::fs::create_dir_all(std::path::Path::new(&evpath).parent().unwrap());
    std::fs::write(&evpath, serde_json::to_string_pretty(&ev).unwrap()).expect("write evidence");

    // report
    for k in kf.listed_known(id) {
        let n = agg.known.get(&k.id).copied().unwrap_or(0);
        println!("KNOWN-FINDING: property={} {} {} (observed {}x this run)", id, k.id, k.what, n);
    }
    for f in &failures {
        println!("VIOLATION property={} replay={}", id, f.replay);
        println!("  signature: {}", f.sig);
        for l in f.msg.lines().take(12) {
            println!("  | {}", l);
        }
    }
    println!(
        "{} {}: {} cases ({} distinct non-trivial), {} discarded, {} known-finding hits, {} violation signature(s), {:.1}s",
        id,
        cfg.tier.name(),
        agg.evals,
        distinct,
        agg.discards.values().sum::<u64>(),
        agg.known.values().sum::<u64>(),
        failures.len(),
        wall
    );
    let code = if !failures.is_empty() {
        1
    } else if !inconclusive.is_empty() {
        for i in &inconclusive {
            println!("INCONCLUSIVE: {}", i);
        }
        2
    } else {
        0
    };
    Outcome { exit_code: code }
}

fn parse_msgs(buf: &[u8], failures: &mut Vec<Failure>, agg: &mut WorkerSummary, partial: bool) -> bool {
    let mut got_summary = false;
    let txt = String::from_utf8_lossy(buf);
    for line in txt.lines() {
        if line.trim().is_empty() {
            continue;
        }
        match serde_json::from_str::<Msg>(line) {
            Ok(Msg::Fail(f)) => failures.push(f),
            Ok(Msg::Summary(s)) => {
                got_summary = true;
                agg.evals += s.evals;
                agg.nontrivial += s.nontrivial;
                for (k, v) in s.discards {
                    *agg.discards.entry(k).or_insert(0) += v;
                }
                for (k, v) in s.known {
                    *agg.known.entry(k).or_insert(0) += v;
                }
                for (k, v) in s.classes {
                    *agg.classes.entry(k).or_insert(0) += v;
                }
                for smp in s.samples {
                    if agg.samples.len() < 12 {
                        agg.samples.push(smp);
                    }
                }
                agg.harness_faults.extend(s.harness_faults);
            }
            Err(_) => {
                if !partial {
                    agg.harness_faults.push(format!("unparseable worker line: {}", line.chars().take(120).collect::<String>()));
                }
            }
        }
    }
    got_summary || partial
}

/// Replay one file without proptest. Exit 0 pass/known, 1 violation.
pub fn replay<P: Property>(p: &mut P, path: &str) -> i32 {
    util::install_panic_hook();
    let kf = KnownFindings::load();
    p.setup();
    let raw = std::fs::read(path).expect("read replay file");
    let parsed: Option<Value> = std::str::from_utf8(&raw).ok().and_then(|t| serde_json::from_str(t).ok());
    let case: P::Case = match parsed.and_then(|v| serde_json::from_value(v["case"].clone()).ok()) {
        Some(c) => c,
        // not one of our JSON replay files: a raw input saved by a fuzzer (libFuzzer artifact)
        None => p.case_from_raw(&raw).expect("replay file is neither a JSON replay nor a raw input this property understands"),
    };
    let o = filter(exec_guarded(p, &case), &kf, p.id());
    println!("case: {}", serde_json::to_string_pretty(&p.render(&case)).unwrap());
    match o.verdict {
        Verdict::Fail { sig, msg } => {
            println!("VIOLATION property={} replay={}", p.id(), path);
            println!("  signature: {}", sig);
            println!("{}", msg);
            1
        }
        Verdict::Known(k) => {
            println!("KNOWN-FINDING: property={} {}", p.id(), k);
            0
        }
        Verdict::Discard(r) => {
            println!("discarded: {}", r);
            0
        }
        Verdict::Pass => {
            println!("pass");
            0
        }
    }
}
