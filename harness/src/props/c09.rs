//! C09: memory permissions are enforced on every access path.
use super::mu::*;
use crate::sup::{CaseOut, Property, Tier, Verdict};
use crate::tape::{Shape, Tape, TapeVal};
use ax_x86::axecutor::Axecutor;
use ax_x86::state::registers::SupportedRegister as SR;
use iced_x86::{Code, Encoder, Instruction, MemoryOperand, Register};
use serde::{Deserialize, Serialize};

const CODE_AT: u64 = 0x40_0000;
const TARGET: u64 = 0x80_0000;
const TLEN: u64 = 0x400;
const STACK: u64 = 0xa0_0000;

#[derive(Clone, Copy, Debug, PartialEq, Eq, Serialize, Deserialize)]
pub enum Role {
    Read,
    Write,
    Rmw,
    None,
    CondRead,
}

#[derive(Clone, Debug, Serialize, Deserialize)]
pub enum Path {
    ApiRead { width: u64 },
    ApiWrite { width: u64 },
    Fetch,
    /// guest instruction with an explicit memory operand [rbx]; index into the template table
    Operand { template: usize },
    /// implicit stack access with RSP inside the target area: 0 push r64, 1 call rel32, 2 pop r64, 3 ret, 4 push imm8, 5 push r16, 6 pop r16
    Stack { which: usize },
    /// API write to the constructor's code area
    ApiWriteCode { width: u64 },
    /// a store that starts inside the target area and runs into a directly adjacent area with mask
    /// `nmask`: 0 API 16 bytes, 1 API 8 bytes, 2 movups [rbx],xmm1, 3 mov [rbx],rax, 4 add [rbx],rax, 5 API 3 bytes
    Straddle { kind: u8, nmask: u32, inside: u64 },
    /// a segment loaded from a generated ELF with p_flags = mask: 0 API write, 1 guest store, 2 API read,
    /// 3 guest load, 4 fetch; `exact_page`: p_filesz = p_memsz = one page (no zero padding)
    Elf { kind: u8, exact_page: bool },
    /// an instruction whose first `split` bytes end the constructor's code area and whose remaining bytes
    /// lie in a directly adjacent area with mask `nmask`
    FetchStraddle { nmask: u32, split: u64 },
}

#[derive(Clone, Debug, Serialize, Deserialize)]
pub struct Case {
    pub mask: u32,
    pub path: Path,
    pub offset: u64,
    pub seed: u64,
    pub cf_zf: u64,
    /// resize the target area to this size (keeping its start) after the mask was set and before the
    /// access: permissions must survive a resize
    #[serde(default)]
    pub pre_resize: Option<u64>,
    /// perform the same access once while every permission is still granted, put memory and registers
    /// back, and only then set the mask: a permission change must reach accesses that were made before
    /// (cached decodes, cached area look-ups)
    #[serde(default)]
    pub warm: bool,
}

pub struct Template {
    pub name: &'static str,
    pub bytes: Vec<u8>,
    pub role: Role,
}

fn enc(ins: Instruction) -> Vec<u8> {
    let mut e = Encoder::new(64);
    e.encode(&ins, CODE_AT).expect("template encodes");
    e.take_buffer()
}

pub fn templates() -> Vec<Template> {
    let m = || MemoryOperand::with_base(Register::RBX);
    let mut v = vec![];
    let mut add = |name: &'static str, ins: Result<Instruction, iced_x86::IcedError>, role: Role| v.push(Template { name, bytes: enc(ins.expect("template builds")), role });
    use Role::*;
    // reads
    add("mov rax,[rbx]", Instruction::with2(Code::Mov_r64_rm64, Register::RAX, m()), Read);
    add("mov eax,[rbx]", Instruction::with2(Code::Mov_r32_rm32, Register::EAX, m()), Read);
    add("mov ax,[rbx]", Instruction::with2(Code::Mov_r16_rm16, Register::AX, m()), Read);
    add("mov al,[rbx]", Instruction::with2(Code::Mov_r8_rm8, Register::AL, m()), Read);
    add("cmp [rbx],rax", Instruction::with2(Code::Cmp_rm64_r64, m(), Register::RAX), Read);
    add("cmp rax,[rbx]", Instruction::with2(Code::Cmp_r64_rm64, Register::RAX, m()), Read);
    add("cmp byte [rbx],5", Instruction::with2(Code::Cmp_rm8_imm8, m(), 5i32), Read);
    add("test [rbx],eax", Instruction::with2(Code::Test_rm32_r32, m(), Register::EAX), Read);
    add("add rax,[rbx]", Instruction::with2(Code::Add_r64_rm64, Register::RAX, m()), Read);
    add("sub eax,[rbx]", Instruction::with2(Code::Sub_r32_rm32, Register::EAX, m()), Read);
    add("xor rax,[rbx]", Instruction::with2(Code::Xor_r64_rm64, Register::RAX, m()), Read);
    add("and ax,[rbx]", Instruction::with2(Code::And_r16_rm16, Register::AX, m()), Read);
    add("adc al,[rbx]", Instruction::with2(Code::Adc_r8_rm8, Register::AL, m()), Read);
    add("imul rax,[rbx]", Instruction::with2(Code::Imul_r64_rm64, Register::RAX, m()), Read);
    add("mul qword [rbx]", Instruction::with1(Code::Mul_rm64, m()), Read);
    add("div byte [rbx]", Instruction::with1(Code::Div_rm8, m()), Read);
    add("movzx eax,byte [rbx]", Instruction::with2(Code::Movzx_r32_rm8, Register::EAX, m()), Read);
    add("movzx eax,word [rbx]", Instruction::with2(Code::Movzx_r32_rm16, Register::EAX, m()), Read);
    add("movsxd rax,[rbx]", Instruction::with2(Code::Movsxd_r64_rm32, Register::RAX, m()), Read);
    add("movups xmm1,[rbx]", Instruction::with2(Code::Movups_xmm_xmmm128, Register::XMM1, m()), Read);
    add("movd xmm1,[rbx]", Instruction::with2(Code::Movd_xmm_rm32, Register::XMM1, m()), Read);
    add("xorps xmm1,[rbx]", Instruction::with2(Code::Xorps_xmm_xmmm128, Register::XMM1, m()), Read);
    add("push word [rbx]", Instruction::with1(Code::Push_rm16, m()), Read);
    add("jmp [rbx]", Instruction::with1(Code::Jmp_rm64, m()), Read);
    add("call [rbx]", Instruction::with1(Code::Call_rm64, m()), Read);
    add("cmove rax,[rbx]", Instruction::with2(Code::Cmove_r64_rm64, Register::RAX, m()), CondRead);
    add("cmovne eax,[rbx]", Instruction::with2(Code::Cmovne_r32_rm32, Register::EAX, m()), CondRead);
    add("cmovae ax,[rbx]", Instruction::with2(Code::Cmovae_r16_rm16, Register::AX, m()), CondRead);
    // writes
    add("mov [rbx],rax", Instruction::with2(Code::Mov_rm64_r64, m(), Register::RAX), Write);
    add("mov [rbx],eax", Instruction::with2(Code::Mov_rm32_r32, m(), Register::EAX), Write);
    add("mov [rbx],ax", Instruction::with2(Code::Mov_rm16_r16, m(), Register::AX), Write);
    add("mov [rbx],al", Instruction::with2(Code::Mov_rm8_r8, m(), Register::AL), Write);
    add("mov qword [rbx],7", Instruction::with2(Code::Mov_rm64_imm32, m(), 7i32), Write);
    add("mov byte [rbx],7", Instruction::with2(Code::Mov_rm8_imm8, m(), 7i32), Write);
    add("sete [rbx]", Instruction::with1(Code::Sete_rm8, m()), Write);
    add("setne [rbx]", Instruction::with1(Code::Setne_rm8, m()), Write);
    add("setb [rbx]", Instruction::with1(Code::Setb_rm8, m()), Write);
    add("movups [rbx],xmm1", Instruction::with2(Code::Movups_xmmm128_xmm, m(), Register::XMM1), Write);
    add("movd [rbx],xmm1", Instruction::with2(Code::Movd_rm32_xmm, m(), Register::XMM1), Write);
    // read-modify-write
    add("add [rbx],rax", Instruction::with2(Code::Add_rm64_r64, m(), Register::RAX), Rmw);
    add("add byte [rbx],1", Instruction::with2(Code::Add_rm8_imm8, m(), 1i32), Rmw);
    add("adc [rbx],eax", Instruction::with2(Code::Adc_rm32_r32, m(), Register::EAX), Rmw);
    add("sub [rbx],ax", Instruction::with2(Code::Sub_rm16_r16, m(), Register::AX), Rmw);
    add("and [rbx],al", Instruction::with2(Code::And_rm8_r8, m(), Register::AL), Rmw);
    add("xor [rbx],rax", Instruction::with2(Code::Xor_rm64_r64, m(), Register::RAX), Rmw);
    add("xor dword [rbx],0x55", Instruction::with2(Code::Xor_rm32_imm8, m(), 0x55i32), Rmw);
    add("inc qword [rbx]", Instruction::with1(Code::Inc_rm64, m()), Rmw);
    add("dec byte [rbx]", Instruction::with1(Code::Dec_rm8, m()), Rmw);
    add("neg dword [rbx]", Instruction::with1(Code::Neg_rm32, m()), Rmw);
    add("not word [rbx]", Instruction::with1(Code::Not_rm16, m()), Rmw);
    add("shl qword [rbx],3", Instruction::with2(Code::Shl_rm64_imm8, m(), 3i32), Rmw);
    add("shr byte [rbx],1", Instruction::with2(Code::Shr_rm8_1, m(), 1i32), Rmw);
    add("shl dword [rbx],cl", Instruction::with2(Code::Shl_rm32_CL, m(), Register::CL), Rmw);
    // no access
    add("lea rax,[rbx]", Instruction::with2(Code::Lea_r64_m, Register::RAX, m()), None);
    add("nop dword [rbx]", Instruction::with1(Code::Nop_rm32, m()), None);
    v
}

const STACK_OPS: [(&str, &[u8], bool, u64); 7] = [
    ("push rax", &[0x50], true, 8),
    ("call +0", &[0xe8, 0, 0, 0, 0], true, 8),
    ("pop rax", &[0x58], false, 8),
    ("ret", &[0xc3], false, 8),
    ("push 0x11", &[0x6a, 0x11], true, 8),
    ("push ax", &[0x66, 0x50], true, 2),
    ("pop ax", &[0x66, 0x58], false, 2),
];

pub struct C09 {
    t: Vec<Template>,
}
impl C09 {
    pub fn new() -> C09 {
        C09 { t: templates() }
    }
}

impl C09 {
    fn exec_straddle(&mut self, c: &Case, kind: u8, nmask: u32, inside: u64) -> CaseOut {
        let code: Vec<u8> = match kind {
            2 => self.t.iter().find(|t| t.name == "movups [rbx],xmm1").unwrap().bytes.clone(),
            3 => self.t.iter().find(|t| t.name == "mov [rbx],rax").unwrap().bytes.clone(),
            4 => self.t.iter().find(|t| t.name == "add [rbx],rax").unwrap().bytes.clone(),
            _ => vec![0x90],
        };
        let mut img = code.clone();
        img.extend_from_slice(&[0x90; 8]);
        let mut ax = match api(|| Axecutor::new(&img, CODE_AT, CODE_AT)) {
            Api::Ok(a) => a,
            other => return CaseOut::fail("HARNESS-FAULT|C09-new".into(), other.short()),
        };
        init_regs(&mut ax, c.seed);
        ax.mem_init_area(TARGET, crate::mach::fill(c.seed, crate::native::ArenaKind::Rw, TLEN as usize)).unwrap();
        ax.mem_init_area(TARGET + TLEN, crate::mach::fill(c.seed ^ 1, crate::native::ArenaKind::Ro, 0x100)).unwrap();
        ax.mem_prot(TARGET, c.mask).unwrap();
        ax.mem_prot(TARGET + TLEN, nmask).unwrap();
        let addr = TARGET + TLEN - inside;
        ax.reg_write_64(SR::RBX, addr).unwrap();
        let before = ax.verif_areas();
        let res: Api<()> = match kind {
            0 => api(|| ax.mem_write_128(addr, 0x5a5a_5a5a_5a5a_5a5a_5a5a_5a5a_5a5a_5a5a)),
            1 => api(|| ax.mem_write_64(addr, 0x5a5a_5a5a_5a5a_5a5a)),
            5 => api(|| ax.mem_write_bytes(addr, &[0x5a; 3])),
            _ => match step(&mut ax) {
                Api::Ok(_) => Api::Ok(()),
                Api::Err(e) => Api::Err(e),
                Api::Panic(p) => Api::Panic(p),
            },
        };
        let mut out = CaseOut::pass(true, hash_json(c)).class("kind:straddle").class("denial");
        let what = format!("a store of kind {} that starts {} bytes before the end of an area with mask {} and runs into the adjacent area with mask {}", kind, inside, c.mask, nmask);
        if let Api::Panic(p) = &res {
            out.verdict = Verdict::Fail { sig: format!("C09|straddle|{}", p.signature()), msg: format!("{} crashed: {}", what, res.short()) };
            return out;
        }
        // what this property decides: a byte of the access falls into an area that lacks the needed
        // permission ⇒ refused, nothing changes. Whether an access may span two adjacent areas at all when
        // both grant it is C08's statement ("runs past the end of its area … fails"), not this one's.
        let need = if kind == 4 { 3 } else { 2 };
        let both_permit = c.mask & need == need && nmask & need == need;
        if both_permit {
            return CaseOut::pass(true, hash_json(c)).class("kind:straddle").class("straddle:both-areas-permit (C08 decides)");
        }
        if res.is_ok() {
            out.verdict = Verdict::Fail { sig: "C09|straddle|access-into-area-without-permission-succeeded".into(), msg: format!("{} succeeded", what) };
            return out;
        }
        let after = ax.verif_areas();
        if before.iter().zip(after.iter()).any(|(a, b)| a.data != b.data) {
            out.verdict = Verdict::Fail { sig: "C09|straddle|denied-access-changed-memory".into(), msg: format!("{} was refused ({}) but memory changed", what, res.short()) };
        }
        out
    }

    fn exec_fetch_straddle(&mut self, c: &Case, nmask: u32, split: u64) -> CaseOut {
        // mov rax, imm32 (7 bytes): the first `split` bytes end the code area, the rest starts the neighbour
        let ins: [u8; 7] = [0x48, 0xc7, 0xc0, 0x2a, 0x00, 0x00, 0x00];
        let split = split.min(6) as usize;
        let mut code = vec![0x90u8; 16];
        code.extend_from_slice(&ins[..split]);
        let start = CODE_AT;
        let mut ax = match api(|| Axecutor::new(&code, start, start + 16)) {
            Api::Ok(a) => a,
            other => return CaseOut::fail("HARNESS-FAULT|C09-new".into(), other.short()),
        };
        init_regs(&mut ax, c.seed);
        let mut rest = ins[split..].to_vec();
        rest.extend_from_slice(&[0x90; 16]);
        ax.mem_init_area(start + code.len() as u64, rest).unwrap();
        ax.mem_prot(start + code.len() as u64, nmask).unwrap();
        let before = snap(&ax);
        let res = step(&mut ax);
        let mut out = CaseOut::pass(true, hash_json(c)).class("kind:fetch-straddle");
        let what = format!("an instruction whose first {} bytes end the executable code area and whose rest lies in a directly adjacent area with mask {}", split, nmask);
        if let Api::Panic(p) = &res {
            out.verdict = Verdict::Fail { sig: format!("C09|fetch-straddle|{}", p.signature()), msg: format!("{} crashed: {}", what, res.short()) };
            return out;
        }
        if nmask & 4 == 0 {
            out = out.class("denial");
            if res.is_ok() {
                out.verdict = Verdict::Fail { sig: "C09|fetch-straddle|bytes-fetched-from-non-executable-area".into(), msg: format!("{} executed", what) };
                return out;
            }
            let after = snap(&ax);
            if after.gpr != before.gpr || after.areas != before.areas {
                out.verdict = Verdict::Fail { sig: "C09|fetch-straddle|denied-fetch-changed-state".into(), msg: format!("{} was refused but state changed: {}", what, before.diff(&after)) };
            }
        } else {
            out = out.class("either-way");
        }
        out
    }

    fn exec_elf(&mut self, c: &Case, kind: u8, exact_page: bool) -> CaseOut {
        use crate::elfb::{build, ElfDesc, Seg};
        let (r, w, x) = (c.mask & 1 != 0, c.mask & 2 != 0, c.mask & 4 != 0);
        let flags = (if r { 4 } else { 0 }) | (if w { 2 } else { 0 }) | (if x { 1 } else { 0 });
        let (fsz, msz) = if exact_page { (0x1000u64, 0x1000u64) } else { (0x80, 0x100) };
        let d = ElfDesc {
            entry: 0x40_0000,
            segs: vec![Seg { p_type: 1, flags: 5, vaddr: 0x40_0000, filesz: 0x20, memsz: 0x20, seed: 1 }, Seg { p_type: 1, flags, vaddr: 0x40_2000, filesz: fsz, memsz: msz, seed: 2 }],
            syms: None,
            with_shdrs: false,
        };
        let (mut file, lay) = build(&d);
        // driver code: mov [rbx],al ; nop ; mov cl,[rbx] ; nop…  — target bytes: nops
        let drv = [0x88u8, 0x03, 0x90, 0x8a, 0x0b, 0x90, 0x90, 0x90];
        file[lay.seg_offsets[0]..lay.seg_offsets[0] + 8].copy_from_slice(&drv);
        for b in file[lay.seg_offsets[1]..lay.seg_offsets[1] + fsz as usize].iter_mut() {
            *b = 0x90;
        }
        let mut ax = match api(|| Axecutor::from_binary(&file)) {
            Api::Ok(a) => a,
            other => return CaseOut::fail("HARNESS-FAULT|C09-elf-load".into(), other.short()),
        };
        init_regs(&mut ax, c.seed);
        let addr = 0x40_2000 + (c.offset & 0x70);
        ax.reg_write_64(SR::RBX, addr).unwrap();
        ax.reg_write_64(SR::RIP, match kind { 1 => 0x40_0000, 3 => 0x40_0003, 4 => addr, _ => 0x40_0006 }).unwrap();
        let before = ax.verif_areas();
        let res: Api<()> = match kind {
            0 => api(|| ax.mem_write_8(addr, 0x5a)),
            2 => api(|| ax.mem_read_8(addr).map(|_| ())),
            _ => match step(&mut ax) {
                Api::Ok(_) => Api::Ok(()),
                Api::Err(e) => Api::Err(e),
                Api::Panic(p) => Api::Panic(p),
            },
        };
        let (needs_missing, required) = match kind {
            0 | 1 => (!w, r && w),
            2 | 3 => (!r, r),
            _ => (!x, r && x),
        };
        let what = format!("{} on an ELF-loaded segment with p_flags {}{}{} ({})", ["API write", "guest store", "API read", "guest load", "instruction fetch"][kind as usize], if r { "R" } else { "-" }, if w { "W" } else { "-" }, if x { "X" } else { "-" }, if exact_page { "exactly one page, no zero padding" } else { "with a bss tail" });
        let mut out = CaseOut::pass(true, hash_json(c)).class("kind:elf-segment").class(if needs_missing { "denial" } else { "allowance" });
        if let Api::Panic(p) = &res {
            out.verdict = Verdict::Fail { sig: format!("C09|elf|{}", p.signature()), msg: format!("{} crashed: {}", what, res.short()) };
            return out;
        }
        let after = ax.verif_areas();
        let same = before.iter().zip(after.iter()).all(|(a, b)| a.data == b.data);
        if needs_missing {
            if res.is_ok() {
                out.verdict = Verdict::Fail { sig: "C09|elf|access-without-permission-succeeded".into(), msg: format!("{}: the needed permission is missing but the access succeeded", what) };
            } else if !same {
                out.verdict = Verdict::Fail { sig: "C09|elf|denied-access-changed-memory".into(), msg: format!("{}: denied but memory changed", what) };
            }
        } else if required && !res.is_ok() {
            out.verdict = Verdict::Fail { sig: "C09|elf|permitted-access-refused".into(), msg: format!("{}: answered {}", what, res.short()) };
        }
        out
    }
}

impl Property for C09 {
    type Case = Case;
    fn id(&self) -> &'static str {
        "C09"
    }
    fn shape(&self) -> Shape {
        Shape::flat(8)
    }
    fn cases(&self, tier: Tier) -> u64 {
        match tier {
            Tier::Quick => 6_000_000,
            Tier::Thorough => 80_000_000,
        }
    }
    fn decode(&mut self, tape: &TapeVal) -> Case {
        let mut t = Tape::new(&tape[0]);
        let mask = t.below(8) as u32;
        let nt = self.t.len() as u64;
        let path = match t.weighted(&[13, 13, 9, 36, 13, 4, 6, 6, 4]) {
            8 => Path::FetchStraddle { nmask: t.below(8) as u32, split: 1 + t.below(6) },
            6 => {
                let kind = t.below(6) as u8;
                let size = [16u64, 8, 16, 8, 8, 3][kind as usize];
                Path::Straddle { kind, nmask: t.below(8) as u32, inside: 1 + t.below(size - 1) }
            }
            7 => Path::Elf { kind: t.below(5) as u8, exact_page: t.bool() },
            0 => Path::ApiRead { width: t.pick(&[1u64, 2, 4, 8, 16, 3]) },
            1 => Path::ApiWrite { width: t.pick(&[1u64, 2, 4, 8, 16, 3]) },
            2 => Path::Fetch,
            3 => Path::Operand { template: t.below(nt) as usize },
            4 => Path::Stack { which: t.below(STACK_OPS.len() as u64) as usize },
            _ => Path::ApiWriteCode { width: t.pick(&[1u64, 2, 4, 8, 16, 3]) },
        };
        Case { mask, path, offset: 0x40 + 16 * t.below((TLEN - 0x80) / 16), seed: t.raw(), cf_zf: t.below(4), pre_resize: if t.below(4) == 0 { Some(if t.bool() { TLEN + 0x100 } else { TLEN - 0x20 }) } else { None }, warm: t.below(4) == 0 }
    }

    fn fixed_cases(&mut self, _tier: Tier) -> Vec<Case> {
        // every mask × every template / stack op / API width / fetch: the full finite grid
        let mut v = vec![];
        for mask in 0..8u32 {
            for template in 0..self.t.len() {
                for cf_zf in 0..4 {
                    v.push(Case { mask, path: Path::Operand { template }, offset: 0x100, seed: 1, cf_zf , pre_resize: None, warm: false });
                }
            }
            for which in 0..STACK_OPS.len() {
                v.push(Case { mask, path: Path::Stack { which }, offset: 0x100, seed: 2, cf_zf: 0 , pre_resize: None, warm: false });
            }
            for width in [1u64, 2, 4, 8, 16, 3] {
                v.push(Case { mask, path: Path::ApiRead { width }, offset: 0x100, seed: 3, cf_zf: 0 , pre_resize: None, warm: false });
                v.push(Case { mask, path: Path::ApiWrite { width }, offset: 0x100, seed: 4, cf_zf: 0 , pre_resize: None, warm: false });
                v.push(Case { mask, path: Path::ApiWriteCode { width }, offset: 0x100, seed: 5, cf_zf: 0 , pre_resize: None, warm: false });
            }
            v.push(Case { mask, path: Path::Fetch, offset: 0x100, seed: 6, cf_zf: 0, pre_resize: None, warm: false });
            v.push(Case { mask, path: Path::Fetch, offset: 0x100, seed: 14, cf_zf: 0, pre_resize: None, warm: true });
            for template in [0usize, 30, 40] {
                v.push(Case { mask, path: Path::Operand { template: template % self.t.len() }, offset: 0x100, seed: 15, cf_zf: 0, pre_resize: None, warm: true });
            }
            for kind in 0..6u8 {
                let size = [16u64, 8, 16, 8, 8, 3][kind as usize];
                for nmask in 0..8u32 {
                    for inside in [1, size / 2, size - 1] {
                        v.push(Case { mask, path: Path::Straddle { kind, nmask, inside }, offset: 0x100, seed: 7, cf_zf: 0 , pre_resize: None, warm: false });
                    }
                }
            }
            for nmask in 0..8u32 {
                for split in 1..7u64 {
                    v.push(Case { mask, path: Path::FetchStraddle { nmask, split }, offset: 0x100, seed: 9, cf_zf: 0, pre_resize: None, warm: false });
                }
            }
            for pre in [TLEN + 0x100, TLEN - 0x20] {
                for template in 0..self.t.len() {
                    v.push(Case { mask, path: Path::Operand { template }, offset: 0x100, seed: 10, cf_zf: 1, pre_resize: Some(pre), warm: false });
                }
                for width in [1u64, 8, 16] {
                    v.push(Case { mask, path: Path::ApiRead { width }, offset: 0x100, seed: 11, cf_zf: 0, pre_resize: Some(pre), warm: false });
                    v.push(Case { mask, path: Path::ApiWrite { width }, offset: 0x100, seed: 12, cf_zf: 0, pre_resize: Some(pre), warm: false });
                }
                v.push(Case { mask, path: Path::Fetch, offset: 0x100, seed: 13, cf_zf: 0, pre_resize: Some(pre), warm: false });
            }
            for kind in 0..5u8 {
                for exact_page in [false, true] {
                    v.push(Case { mask, path: Path::Elf { kind, exact_page }, offset: 0x100, seed: 8, cf_zf: 0 , pre_resize: None, warm: false });
                }
            }
        }
        v
    }

    fn exec(&mut self, c: &Case) -> CaseOut {
        match &c.path {
            Path::Straddle { kind, nmask, inside } => return self.exec_straddle(c, *kind, *nmask, *inside),
            Path::Elf { kind, exact_page } => return self.exec_elf(c, *kind, *exact_page),
            Path::FetchStraddle { nmask, split } => return self.exec_fetch_straddle(c, *nmask, *split),
            _ => {}
        }
        // code: the instruction under test followed by padding
        let (code, what): (Vec<u8>, String) = match &c.path {
            Path::Operand { template } => (self.t[*template].bytes.clone(), self.t[*template].name.to_string()),
            Path::Stack { which } => (STACK_OPS[*which].1.to_vec(), STACK_OPS[*which].0.to_string()),
            _ => (vec![0x90], "nop".into()),
        };
        let mut img = code.clone();
        img.extend_from_slice(&[0x90; 16]);
        let start_rip = if matches!(c.path, Path::Fetch) { TARGET + c.offset } else { CODE_AT };
        let mut ax = match api(|| Axecutor::new(&img, CODE_AT, start_rip)) {
            Api::Ok(a) => a,
            other => return CaseOut::fail("HARNESS-FAULT|C09-new".into(), other.short()),
        };
        init_regs(&mut ax, c.seed);
        // target area: nops (so that it is fetchable) with a data pattern that cannot divide by zero / jump wild
        let mut tdata = crate::mach::fill(c.seed, crate::native::ArenaKind::Rw, TLEN as usize);
        if matches!(c.path, Path::Fetch) {
            tdata = vec![0x90; TLEN as usize];
        }
        if let Path::Operand { template } = &c.path {
            let name = self.t[*template].name;
            if name.starts_with("jmp") || name.starts_with("call") {
                tdata[c.offset as usize..c.offset as usize + 8].copy_from_slice(&(CODE_AT + 8).to_le_bytes());
            }
            if name.starts_with("div") {
                tdata[c.offset as usize] = 0xff;
            }
        }
        if let Path::Stack { which } = &c.path {
            if STACK_OPS[*which].0 == "ret" {
                for k in 0..4 {
                    let o = c.offset as usize + 8 * k;
                    tdata[o..o + 8].copy_from_slice(&(CODE_AT + 4).to_le_bytes());
                }
            }
        }
        ax.mem_init_area(TARGET, tdata.clone()).unwrap();
        ax.mem_init_area_named(STACK, vec![0u8; 0x200], Some("Stack".into())).unwrap();
        let set_regs = |ax: &mut Axecutor| {
            init_regs(ax, c.seed);
            ax.reg_write_64(SR::RIP, start_rip).unwrap();
            ax.reg_write_64(SR::RBX, TARGET + c.offset).unwrap();
            ax.reg_write_64(SR::RAX, 0x0102_0304_0506_0708).unwrap(); // non-zero divisor context, harmless values
            ax.reg_write_64(SR::RDX, 0).unwrap();
            ax.reg_write_64(SR::RCX, 3).unwrap();
            ax.reg_write_64(SR::RSP, if matches!(c.path, Path::Stack { .. }) { TARGET + c.offset } else { STACK + 0x100 }).unwrap();
            ax.verif_set_rflags((if c.cf_zf & 1 != 0 { 1 } else { 0 }) | (if c.cf_zf & 2 != 0 { 0x40 } else { 0 }));
        };
        let access = |ax: &mut Axecutor| -> Api<()> {
            match &c.path {
                Path::ApiRead { width } => api(|| {
                    match width {
                        1 => ax.mem_read_8(TARGET + c.offset).map(|_| ()),
                        2 => ax.mem_read_16(TARGET + c.offset).map(|_| ()),
                        4 => ax.mem_read_32(TARGET + c.offset).map(|_| ()),
                        8 => ax.mem_read_64(TARGET + c.offset).map(|_| ()),
                        16 => ax.mem_read_128(TARGET + c.offset).map(|_| ()),
                        n => ax.mem_read_bytes(TARGET + c.offset, *n).map(|_| ()),
                    }
                }),
                Path::ApiWrite { width } | Path::ApiWriteCode { width } => {
                    let a = if matches!(c.path, Path::ApiWriteCode { .. }) { CODE_AT + 1 } else { TARGET + c.offset };
                    api(|| match width {
                        1 => ax.mem_write_8(a, 0x5a),
                        2 => ax.mem_write_16(a, 0x5a5a),
                        4 => ax.mem_write_32(a, 0x5a5a_5a5a),
                        8 => ax.mem_write_64(a, 0x5a5a_5a5a_5a5a_5a5a),
                        16 => ax.mem_write_128(a, 0x5a5a_5a5a_5a5a_5a5a_5a5a),
                        n => ax.mem_write_bytes(a, &vec![0x5a; *n as usize]),
                    })
                }
                _ => match step(ax) {
                    Api::Ok(_) => Api::Ok(()),
                    Api::Err(e) => Api::Err(e),
                    Api::Panic(p) => Api::Panic(p),
                },
            }
        };
        if c.warm {
            ax.mem_prot(TARGET, 7).unwrap();
            set_regs(&mut ax);
            if let Api::Panic(p) = access(&mut ax) {
                return CaseOut::fail(format!("C09|warm-up|{}", p.signature()), format!("the access crashed with every permission granted: {} at {}", p.message, p.location));
            }
            if ax.verif_finished() {
                return CaseOut::discard("warm-up-access-ended-the-run");
            }
            ax.mem_write_bytes(TARGET, &tdata).unwrap();
            ax.mem_write_bytes(STACK, &[0u8; 0x200]).unwrap();
        }
        ax.mem_prot(TARGET, c.mask).unwrap();
        if let Some(sz) = c.pre_resize {
            if ax.mem_resize_section(TARGET, sz).is_err() {
                return CaseOut::fail("HARNESS-FAULT|C09-resize".into(), "could not resize the target area".into());
            }
        }
        set_regs(&mut ax);
        let before = ax.verif_areas();
        let (r, w, x) = (c.mask & 1 != 0, c.mask & 2 != 0, c.mask & 4 != 0);

        // role and what it needs
        let (role, kind): (Role, &'static str) = match &c.path {
            Path::ApiRead { .. } => (Role::Read, "api"),
            Path::ApiWrite { .. } | Path::ApiWriteCode { .. } => (Role::Write, "api"),
            Path::Fetch => (Role::None, "fetch"),
            Path::Operand { template } => (self.t[*template].role, "operand"),
            Path::Stack { which } => (if STACK_OPS[*which].2 { Role::Write } else { Role::Read }, "stack"),
            _ => unreachable!(),
        };
        let res: Api<()> = access(&mut ax);
        let mut out = CaseOut::pass(false, hash_json(c));
        let desc = format!("{} path, {} on an area with mask {}{}{} ({})", kind, what, if r { "R" } else { "-" }, if w { "W" } else { "-" }, if x { "X" } else { "-" }, match &c.path {
            Path::ApiRead { width } => format!("mem_read {} bytes", width),
            Path::ApiWrite { width } => format!("mem_write {} bytes", width),
            Path::ApiWriteCode { width } => format!("mem_write {} bytes into the constructor's code area", width),
            Path::Fetch => "instruction fetch from the area".into(),
            _ => format!("{:?}", role),
        });
        if let Api::Panic(p) = &res {
            out.verdict = Verdict::Fail { sig: format!("C09|{}|{}", kind, p.signature()), msg: format!("{} crashed: {}", desc, res.short()) };
            out.nontrivial = true;
            return out;
        }
        let after = ax.verif_areas();
        let mem_same = before.iter().zip(after.iter()).all(|(a, b)| a.data == b.data && a.access == b.access && a.start == b.start) && before.len() == after.len();
        // necessary conditions (the statement): the needed bit is missing => Err and memory unchanged
        let (must_fail, may_succeed_required): (bool, bool) = match (&c.path, role) {
            (Path::ApiWriteCode { .. }, _) => (true, false),
            (Path::Fetch, _) => (!x, r && x),
            (_, Role::Read) => (!r, r),
            (_, Role::Write) => (!w, r && w),
            (_, Role::Rmw) => (!r || !w, r && w),
            (_, Role::None) => (false, true),
            (_, Role::CondRead) => (false, r), // the CPU reads regardless; a false condition may skip it
        };
        let cond_true = match &c.path {
            Path::Operand { template } => match self.t[*template].name {
                n if n.starts_with("cmove ") => c.cf_zf & 2 != 0,
                n if n.starts_with("cmovne") => c.cf_zf & 2 == 0,
                n if n.starts_with("cmovae") => c.cf_zf & 1 == 0,
                _ => true,
            },
            _ => true,
        };
        let must_fail = must_fail || (role == Role::CondRead && cond_true && !r);
        let cell = format!("{}:{:?}:mask{}", kind, role, c.mask);
        out = out.class(format!("cell:{}", cell)).class(format!("kind:{}", kind));
        if c.pre_resize.is_some() {
            out = out.class("after-resize");
        }
        if c.warm {
            out = out.class("after-warm-up-access");
        }
        out.nontrivial = must_fail || c.mask != 3;
        if must_fail {
            out = out.class("denial");
            if res.is_ok() {
                out.verdict = Verdict::Fail { sig: format!("C09|{}|{:?}|access-without-permission-succeeded", kind, role), msg: format!("{}: the needed permission is missing but the access succeeded", desc) };
                return out;
            }
            if !mem_same {
                out.verdict = Verdict::Fail { sig: format!("C09|{}|{:?}|denied-access-changed-memory", kind, role), msg: format!("{}: the access was denied ({}) but memory or permissions changed", desc, res.short()) };
                return out;
            }
        } else if may_succeed_required {
            out = out.class("allowance");
            if !res.is_ok() {
                out.verdict = Verdict::Fail { sig: format!("C09|{}|{:?}|permitted-access-refused", kind, role), msg: format!("{}: all needed permissions are present but the access answered {}", desc, res.short()) };
                return out;
            }
        } else {
            out = out.class("either-way");
            if res.is_err() && !mem_same {
                out.verdict = Verdict::Fail { sig: format!("C09|{}|{:?}|denied-access-changed-memory", kind, role), msg: format!("{}: the access failed ({}) but memory changed", desc, res.short()) };
                return out;
            }
        }
        // the constructor's area is exactly R+X
        if before[0].access != 5 {
            out.verdict = Verdict::Fail { sig: "C09|constructor-area-mask".into(), msg: format!("constructor code area has mask {}, expected R+X (5)", before[0].access) };
        }
        out
    }

    fn rule(&self) -> String {
        "fixed: the complete grid 8 masks × (55 guest instruction templates by operand role × 4 CF/ZF states, 7 implicit stack instructions, API reads/writes of 1/2/3/4/8/16 bytes, API writes into the constructor's code area, instruction fetch, stores that run from the target area into a directly adjacent area of any mask, and all five access kinds on a segment loaded from a generated ELF with p_flags = mask, with and without zero padding, an instruction split across the end of the code area and an adjacent area of any mask; for 1/4 of the cases the target area is resized after its mask was set, for 1/4 the same access is first made once with every permission granted and state put back); random: the same grid with random offsets and register contents; oracle = enforcement model (read needs R, write needs W, read-modify-write needs R and W, fetch needs X): a missing bit ⇒ Err and every area byte-identical; success is required when the mask also contains R; non-trivial = a denial, or any case on a mask other than RW; distinct by hash(case)".into()
    }
    fn required_classes(&self, _tier: Tier) -> Vec<String> {
        let mut v = vec!["denial".into(), "allowance".into(), "tier:fixed".into(), "after-resize".into(), "after-warm-up-access".into()];
        for k in ["api", "operand", "stack", "fetch", "straddle", "elf-segment", "fetch-straddle"] {
            v.push(format!("kind:{}", k));
        }
        v
    }
    fn assumptions(&self) -> Vec<String> {
        vec![
            "operand roles come from a table in the harness (cross-checked against iced's OpAccess in the self-test)".into(),
            "for the hardware-impossible masks W-only and X-only a store / fetch may go either way (the pinned tree's MOV [m],r reads its destination first); CMOVcc with a false condition may skip the read".into(),
            "RSP is kept ≥ 0x40 bytes inside the target area so that the KF-C04-1 slot shift stays inside the same area".into(),
        ]
    }
}
