//! C10: memory areas never overlap; allocation and resizing respect existing areas.
use super::mu::*;
use crate::sup::{CaseOut, Property, Tier, Verdict};
use crate::tape::{Shape, Tape, TapeVal};
use ax_x86::axecutor::Axecutor;
use serde::{Deserialize, Serialize};

#[derive(Clone, Debug, Serialize, Deserialize)]
pub enum Op {
    InitArea { start: u64, len: u64, seed: u64 },
    InitZero { start: u64, len: u64 },
    InitNamed { start: u64, len: u64, seed: u64 },
    ZeroAnywhere { len: u64 },
    Anywhere { len: u64, seed: u64, named: bool },
    InitStack { len: u64 },
    Resize { area: usize, start_delta: u64, new_size: u64 },
    Prot { area: usize, start_delta: u64, prot: u32 },
}

#[derive(Clone, Debug, Serialize, Deserialize)]
pub struct Case {
    pub code_start: u64,
    pub code_len: u64,
    pub ops: Vec<Op>,
}

#[derive(Clone, Debug, PartialEq)]
struct MA {
    start: u64,
    data: Vec<u8>,
    prot: u32,
}

pub struct C10;

fn overlaps(a_start: u64, a_len: u64, b_start: u64, b_len: u64) -> bool {
    // non-empty intersection of [a, a+la) and [b, b+lb) in 128-bit arithmetic
    let (a0, a1) = (a_start as u128, a_start as u128 + a_len as u128);
    let (b0, b1) = (b_start as u128, b_start as u128 + b_len as u128);
    a0 < b1 && b0 < a1 && a_len > 0 && b_len > 0
}

/// Does an *empty* area sit inside or at the edge of [start, start+len]? Whether such a request
/// "overlaps" is a matter of definition (no address is shared), so its verdict is left open.
fn empty_area_in_range(model: &[MA], start: u64, len: u64, except: Option<u64>) -> bool {
    model.iter().any(|a| a.data.is_empty() && Some(a.start) != except && (a.start as u128) >= start as u128 && (a.start as u128) <= start as u128 + len as u128)
}

impl Property for C10 {
    type Case = Case;
    fn id(&self) -> &'static str {
        "C10"
    }
    fn shape(&self) -> Shape {
        Shape::hist(2, 24, 8)
    }
    fn cases(&self, tier: Tier) -> u64 {
        match tier {
            Tier::Quick => 1_000_000,
            Tier::Thorough => 15_000_000,
        }
    }
    fn claims_termination(&self) -> bool {
        true
    }
    fn decode(&mut self, tape: &TapeVal) -> Case {
        let mut t = Tape::new(&tape[0]);
        let code_start = t.pick(&[0x1000u64, 0x2000, 0x40_0000, 0x7fff_0000_0000, 0x1800]);
        let code_len = 1 + t.below(0x300);
        // positions of areas the generator believes exist (for relative placement); the model is authoritative
        let mut known: Vec<(u64, u64)> = vec![(code_start, code_len)];
        let mut ops = vec![];
        for row in tape.iter().skip(1) {
            let mut t = Tape::new(row);
            let kind = t.weighted(&[18, 12, 8, 12, 12, 6, 20, 12]);
            let (rs, rl) = known[t.below(known.len() as u64) as usize];
            // a start/length drawn relative to an existing area
            let len = match t.below(8) {
                0 => 0,
                1 => 1,
                2 => rl,
                3 => rl + 1 + t.below(0x100),
                4 => 0x1000,
                _ => 1 + t.below(0x800),
            };
            let start = match t.below(10) {
                0 => rs.wrapping_sub(len),                       // abutting below
                1 => rs.wrapping_add(rl),                        // abutting above
                2 => rs.wrapping_add(t.below(rl.max(1))),        // start inside
                3 => rs.wrapping_sub(t.below(len.max(1))),       // end inside
                4 => rs.wrapping_sub(1 + t.below(8)),            // just below (encloses if long enough)
                5 => rs,                                         // identical start
                6 => 0x10_0000 + 0x1000 * t.below(64),           // far away
                7 => t.pick(&[0u64, 0x1000, u64::MAX - 0xfff, u64::MAX, 1u64 << 63, 0x7fff_ffff_ffff_f000]),
                8 => rs.wrapping_sub(len).wrapping_sub(1 + t.below(0x10)), // strictly below with a gap
                _ => 0x1000 * (1 + t.below(32)),
            };
            let op = match kind {
                0 => Op::InitArea { start, len, seed: t.raw() },
                1 => Op::InitZero { start, len },
                2 => Op::InitNamed { start, len, seed: t.raw() },
                3 => Op::ZeroAnywhere { len: if t.below(4) == 0 { t.pick(&[0u64, 1, 0x1000, 0x300]) } else { len } },
                4 => Op::Anywhere { len, seed: t.raw(), named: t.bool() },
                5 => Op::InitStack { len: t.pick(&[0u64, 8, 0x10, 0x100, 0x1000, 0x18, 0x1001]) },
                6 => Op::Resize {
                    area: t.below(8) as usize,
                    start_delta: if t.below(8) == 0 { 1 + t.below(4) } else { 0 },
                    new_size: match t.below(8) {
                        0 => 0,
                        1 => rl,
                        2 => rl.wrapping_sub(1 + t.below(rl.max(1))),
                        3 => rl + 1 + t.below(0x40),
                        4 => rl + 0x1000 * (1 + t.below(8)),
                        5 => t.pick(&[u64::MAX, 1u64 << 63, 1 << 40]),
                        _ => t.below(0x2000),
                    },
                },
                _ => Op::Prot { area: t.below(8) as usize, start_delta: if t.below(8) == 0 { 1 } else { 0 }, prot: if t.below(10) == 0 { 8 + t.below(8) as u32 } else { t.below(8) as u32 } },
            };
            if let Op::InitArea { start, len, .. } | Op::InitZero { start, len } | Op::InitNamed { start, len, .. } = &op {
                known.push((*start, *len));
            }
            ops.push(op);
        }
        Case { code_start, code_len, ops }
    }

    fn exec(&mut self, c: &Case) -> CaseOut {
        let code = vec![0x90u8; c.code_len as usize];
        let mut ax = match api(|| Axecutor::new(&code, c.code_start, c.code_start)) {
            Api::Ok(a) => a,
            other => return CaseOut::fail("HARNESS-FAULT|C10-new".into(), other.short()),
        };
        let mut model: Vec<MA> = vec![MA { start: c.code_start, data: code.clone(), prot: 5 }];
        let mut out = CaseOut::pass(false, hash_json(c));
        let mut classes: Vec<&'static str> = vec![];
        let mut collided = false;
        let mut resized = false;
        for (n, op) in c.ops.iter().enumerate() {
            let desc = format!("op #{} {:x?}", n, op);
            let before = model.clone();
            let mut resync = false;
            let fail = |out: &mut CaseOut, sig: &str, msg: String| {
                out.verdict = Verdict::Fail { sig: format!("C10|{}", sig), msg };
                out.nontrivial = true;
            };
            match op {
                Op::InitArea { start, len, seed } | Op::InitNamed { start, len, seed } => {
                    let data = crate::mach::fill(*seed, crate::native::ArenaKind::Rw, *len as usize);
                    let named = matches!(op, Op::InitNamed { .. });
                    let r = api(|| if named { ax.mem_init_area_named(*start, data.clone(), Some("n".into())) } else { ax.mem_init_area(*start, data.clone()) });
                    let coll = model.iter().any(|a| overlaps(*start, *len, a.start, a.data.len() as u64));
                    let fits = *start as u128 + *len as u128 <= 1u128 << 64;
                    if let Api::Panic(p) = &r {
                        fail(&mut out, &format!("init|{}", p.signature()), format!("{} crashed: {}", desc, r.short()));
                        return out;
                    }
                    if coll || !fits {
                        collided = true;
                        classes.push("colliding-request");
                        if r.is_ok() {
                            fail(&mut out, "init|overlapping-request-accepted", format!("{} intersects an existing area (or runs past 2^64) but was accepted; areas before: {:x?}", desc, before.iter().map(|a| (a.start, a.data.len())).collect::<Vec<_>>()));
                            return out;
                        }
                    } else if *len > 0 && !empty_area_in_range(&model, *start, *len, None) {
                        if !r.is_ok() {
                            fail(&mut out, "init|disjoint-request-rejected", format!("{} is disjoint from every area but answered {}; areas: {:x?}", desc, r.short(), before.iter().map(|a| (a.start, a.data.len())).collect::<Vec<_>>()));
                            return out;
                        }
                        model.push(MA { start: *start, data, prot: 3 });
                        classes.push("disjoint-request");
                    } else if r.is_ok() {
                        model.push(MA { start: *start, data, prot: 3 }); // empty area: allowed either way
                    }
                }
                Op::InitZero { start, len } => {
                    if *len > 0x10_0000 {
                        continue;
                    }
                    let r = api(|| ax.mem_init_zero(*start, *len));
                    let coll = model.iter().any(|a| overlaps(*start, *len, a.start, a.data.len() as u64));
                    let fits = *start as u128 + *len as u128 <= 1u128 << 64;
                    if let Api::Panic(p) = &r {
                        fail(&mut out, &format!("init|{}", p.signature()), format!("{} crashed: {}", desc, r.short()));
                        return out;
                    }
                    if coll || !fits {
                        collided = true;
                        classes.push("colliding-request");
                        if r.is_ok() {
                            fail(&mut out, "init|overlapping-request-accepted", format!("{} intersects an existing area (or runs past 2^64) but was accepted; areas before: {:x?}", desc, before.iter().map(|a| (a.start, a.data.len())).collect::<Vec<_>>()));
                            return out;
                        }
                    } else if *len > 0 && !empty_area_in_range(&model, *start, *len, None) {
                        if !r.is_ok() {
                            fail(&mut out, "init|disjoint-request-rejected", format!("{} is disjoint from every area but answered {}", desc, r.short()));
                            return out;
                        }
                        model.push(MA { start: *start, data: vec![0; *len as usize], prot: 3 });
                        classes.push("disjoint-request");
                    } else if r.is_ok() {
                        model.push(MA { start: *start, data: vec![0; *len as usize], prot: 3 });
                    }
                }
                Op::ZeroAnywhere { len } | Op::Anywhere { len, .. } | Op::InitStack { len } => {
                    let (r, data): (Api<u64>, Vec<u8>) = match op {
                        Op::ZeroAnywhere { len } => (api(|| ax.mem_init_zero_anywhere(*len)), vec![0; *len as usize]),
                        Op::Anywhere { len, seed, named } => {
                            let d = crate::mach::fill(*seed, crate::native::ArenaKind::Rw, *len as usize);
                            let d2 = d.clone();
                            (api(|| ax.mem_init_anywhere(d2, if *named { Some("x".into()) } else { None })), d)
                        }
                        Op::InitStack { len } => (api(|| ax.init_stack(*len)), vec![0; *len as usize]),
                        _ => unreachable!(),
                    };
                    classes.push("anywhere");
                    match r {
                        Api::Panic(p) => {
                            fail(&mut out, &format!("anywhere|{}", p.signature()), format!("{} crashed: {} at {}", desc, p.message, p.location));
                            return out;
                        }
                        Api::Err(e) => {
                            // the address space below 2^63 cannot be exhausted by these histories
                            fail(&mut out, "anywhere|failed", format!("{} failed: {}", desc, e.lines().next().unwrap_or("")));
                            return out;
                        }
                        Api::Ok(start) => {
                            if model.iter().any(|a| overlaps(start, *len, a.start, a.data.len() as u64)) || (*len == 0 && model.iter().any(|a| start >= a.start && start - a.start < a.data.len() as u64)) {
                                fail(&mut out, "anywhere|returned-range-not-free", format!("{} returned {:#x}, which intersects an existing area; areas before: {:x?}", desc, start, before.iter().map(|a| (a.start, a.data.len())).collect::<Vec<_>>()));
                                return out;
                            }
                            model.push(MA { start, data, prot: 3 });
                        }
                    }
                }
                Op::Resize { area, start_delta, new_size } => {
                    let target = model[*area % model.len()].clone();
                    let addr = target.start.wrapping_add(*start_delta);
                    if model.iter().filter(|a| a.start == addr).count() > 1 {
                        // an empty and a non-empty area share this start: which one a resize means is not stated, so the
                        // call runs without a verdict of its own, the model adopts the outcome, and the invariants below
                        // (pairwise disjointness, length = data length) judge it
                        classes.push("ambiguous-duplicate-start");
                        if *new_size <= 0x40_0000 {
                            let r = api(|| ax.mem_resize_section(addr, *new_size));
                            if let Api::Panic(p) = &r {
                                fail(&mut out, &format!("resize|{}", p.signature()), format!("{} crashed: {}", desc, r.short()));
                                return out;
                            }
                            resync = true;
                        } else {
                            continue;
                        }
                    }
                    let exists = *start_delta == 0 || model.iter().any(|a| a.start == addr);
                    if resync {
                        // fallthrough to the invariant block with a refreshed model
                    } else {

                    if *new_size > 0x40_0000 && *new_size < (1 << 39) {
                        continue; // keep allocations small; huge sizes stay in (they must be refused or collide)
                    }
                    let coll = model.iter().any(|a| a.start != addr && overlaps(addr, *new_size, a.start, a.data.len() as u64));
                    let fits = addr as u128 + *new_size as u128 <= 1u128 << 64;
                    if exists && !coll && fits && *new_size >= (1 << 39) {
                        continue; // would really allocate
                    }
                    let r = api(|| ax.mem_resize_section(addr, *new_size));
                    resized = true;
                    if let Api::Panic(p) = &r {
                        fail(&mut out, &format!("resize|{}", p.signature()), format!("{} crashed: {}", desc, r.short()));
                        return out;
                    }
                    if !exists {
                        if r.is_ok() {
                            fail(&mut out, "resize|no-such-area-accepted", format!("{}: no area starts at {:#x} but the call succeeded", desc, addr));
                            return out;
                        }
                    } else if coll || !fits {
                        collided = true;
                        classes.push("resize-colliding");
                        if r.is_ok() {
                            fail(&mut out, "resize|colliding-resize-accepted", format!("{}: new extent {:#x}+{:#x} collides with another area (or runs past 2^64) but was accepted; areas: {:x?}", desc, addr, new_size, before.iter().map(|a| (a.start, a.data.len())).collect::<Vec<_>>()));
                            return out;
                        }
                    } else if empty_area_in_range(&model, addr, *new_size, Some(addr)) {
                        classes.push("empty-area-in-range-either-way");
                        if r.is_ok() {
                            let m = model.iter_mut().find(|a| a.start == addr).unwrap();
                            m.data.resize(*new_size as usize, 0);
                        }
                    } else {
                        classes.push(if *new_size as usize > target.data.len() { "resize-grow" } else { "resize-shrink" });
                        if !r.is_ok() {
                            fail(&mut out, "resize|free-resize-rejected", format!("{}: new extent {:#x}+{:#x} collides with no other area but answered {}; areas: {:x?}", desc, addr, new_size, r.short(), before.iter().map(|a| (a.start, a.data.len())).collect::<Vec<_>>()));
                            return out;
                        }
                        let m = model.iter_mut().find(|a| a.start == addr).unwrap();
                        m.data.resize(*new_size as usize, 0); // keeps the common prefix, zero-fills growth
                    }
                    }
                }
                Op::Prot { area, start_delta, prot } => {
                    let target = model[*area % model.len()].clone();
                    let addr = target.start.wrapping_add(*start_delta);
                    if model.iter().filter(|a| a.start == addr).count() > 1 {
                        classes.push("ambiguous-duplicate-start-skipped");
                        continue;
                    }
                    let exists = model.iter().any(|a| a.start == addr);
                    let r = api(|| ax.mem_prot(addr, *prot));
                    if let Api::Panic(p) = &r {
                        fail(&mut out, &format!("prot|{}", p.signature()), format!("{} crashed: {}", desc, r.short()));
                        return out;
                    }
                    classes.push("prot");
                    if exists && *prot <= 7 {
                        if !r.is_ok() {
                            fail(&mut out, "prot|valid-call-rejected", format!("{} answered {}", desc, r.short()));
                            return out;
                        }
                        model.iter_mut().find(|a| a.start == addr).unwrap().prot = *prot;
                    } else if r.is_ok() {
                        fail(&mut out, "prot|invalid-call-accepted", format!("{}: {} but the call succeeded", desc, if exists { "mask > 7" } else { "no area starts there" }));
                        return out;
                    }
                }
            }
            // invariant after every operation: the area list equals the model and is pairwise disjoint
            let areas = ax.verif_areas();
            if resync {
                model = areas.iter().map(|a| MA { start: a.start, data: a.data.clone(), prot: a.access }).collect();
            }
            for (i, a) in areas.iter().enumerate() {
                if a.length != a.data.len() as u64 {
                    // (the hook serves the bytes of [start, start+length): fewer means the area claims bytes it does not hold)
                    fail(&mut out, "invariant|area-holds-fewer-bytes-than-its-length", format!("after {}: area {:#x} length {} but only {} bytes behind it", desc, a.start, a.length, a.data.len()));
                    return out;
                }
                for b in areas.iter().skip(i + 1) {
                    if overlaps(a.start, a.length, b.start, b.length) {
                        fail(&mut out, "invariant|areas-overlap", format!("after {}: areas {:#x}+{:#x} and {:#x}+{:#x} overlap", desc, a.start, a.length, b.start, b.length));
                        return out;
                    }
                }
            }
            let mut got: Vec<MA> = areas.iter().map(|a| MA { start: a.start, data: a.data.clone(), prot: a.access }).collect();
            let mut want = model.clone();
            got.sort_by_key(|a| (a.start, a.data.len()));
            want.sort_by_key(|a| (a.start, a.data.len()));
            if got != want {
                let what = if got.len() != want.len() {
                    format!("{} areas, model has {}", got.len(), want.len())
                } else {
                    let (g, w) = got.iter().zip(want.iter()).find(|(g, w)| g != w).unwrap();
                    if g.start != w.start || g.data.len() != w.data.len() {
                        format!("area {:#x}+{:#x} vs model {:#x}+{:#x}", g.start, g.data.len(), w.start, w.data.len())
                    } else if g.prot != w.prot {
                        format!("area {:#x} mask {} vs model {}", g.start, g.prot, w.prot)
                    } else {
                        let off = g.data.iter().zip(w.data.iter()).position(|(x, y)| x != y).unwrap_or(0);
                        format!("area {:#x} byte +{:#x}: {:#x} vs model {:#x}", g.start, off, g.data[off], w.data[off])
                    }
                };
                let kind = match op {
                    Op::Resize { .. } => "resize|contents-or-extent-wrong",
                    Op::Prot { .. } => "prot|changed-more-than-the-mask",
                    Op::ZeroAnywhere { .. } | Op::Anywhere { .. } | Op::InitStack { .. } => "anywhere|wrong-length-or-contents",
                    _ => "init|state-differs-from-model",
                };
                fail(&mut out, kind, format!("after {}: {}", desc, what));
                return out;
            }
        }
        out.nontrivial = model.len() >= 2 && (collided || resized);
        classes.sort();
        classes.dedup();
        for cl in classes {
            out = out.class(cl);
        }
        out
    }

    fn rule(&self) -> String {
        "cases: histories of 1–23 calls over mem_init_area / mem_init_zero / mem_init_area_named / mem_init_zero_anywhere / mem_init_anywhere / init_stack / mem_resize_section / mem_prot on a machine with one code area; starts and lengths are drawn relative to existing areas (abutting, start inside, end inside, enclosing, identical, zero length, far, top of the address space); an interval-set model decides every verdict and the area list (extent, mask, every byte) is compared with it after every call, plus pairwise disjointness; non-trivial = ≥2 areas and a colliding request or a resize; distinct by hash of the history".into()
    }
    fn required_classes(&self, _tier: Tier) -> Vec<String> {
        vec!["colliding-request".into(), "disjoint-request".into(), "anywhere".into(), "resize-grow".into(), "resize-shrink".into(), "resize-colliding".into(), "prot".into()]
    }
    fn assumptions(&self) -> Vec<String> {
        vec![
            "a non-empty request that is disjoint from every area and fits below 2^64 must be accepted (every caller — ELF loader, stack initialisation, the tests — relies on it); empty areas may be accepted or refused".into(),
            "'anywhere' requests of ≤ 2 KiB cannot exhaust the address space, so an Err from them is a violation; termination is enforced by the watchdog".into(),
        ]
    }
}
