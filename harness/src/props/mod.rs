pub mod c07;
pub mod c08;
pub mod c09;
pub mod c10;
pub mod c11;
pub mod c12;
pub mod c13;
pub mod c14;
pub mod c15;
pub mod c16;
pub mod c17;
pub mod c18;
pub mod c20;
pub mod c19;
pub mod mu;
pub mod nat;

use crate::sup::{Property, Verdict};

/// The model-engine properties a byte-level fuzzer can drive through their own generators
/// (libFuzzer target `model_tape`); the native-oracle properties need the signal machinery and
/// C20 its exec'd twin, so they stay with the supervisor.
pub const TAPE_FUZZABLE: [&str; 11] = ["C07", "C08", "C09", "C10", "C11", "C12", "C13", "C14", "C15", "C17", "C18"];

pub fn shape_of(id: &str) -> Option<crate::tape::Shape> {
    Some(match id {
        "C07" => c07::C07.shape(),
        "C08" => c08::C08.shape(),
        "C09" => c09::C09::new().shape(),
        "C10" => c10::C10.shape(),
        "C11" => c11::C11.shape(),
        "C12" => c12::C12.shape(),
        "C13" => c13::C13.shape(),
        "C14" => c14::C14.shape(),
        "C15" => c15::C15.shape(),
        "C17" => c17::C17.shape(),
        "C18" => c18::C18.shape(),
        _ => return None,
    })
}

fn one<P: Property + 'static>(mut p: P) -> Box<dyn FnMut(&[u8])> {
    p.setup();
    let kf = crate::kf::KnownFindings::load();
    Box::new(move |data: &[u8]| {
        let shape = p.shape();
        let tape = crate::tape::tape_from_raw(&shape, data);
        let case = p.decode(&tape);
        let out = p.exec(&case);
        if let Verdict::Fail { sig, msg } = out.verdict {
            if sig.starts_with("HARNESS-FAULT") || kf.match_sig(p.id(), &sig).is_some() {
                return;
            }
            panic!("{} violation {}: {}", p.id(), sig, msg);
        }
    })
}

/// One fuzz iteration function for property `id`: bytes -> tape -> the property's own decode and
/// exec; a violation (after the known-findings filter) panics, which is what libFuzzer records.
pub fn fuzz_entry(id: &str) -> Option<Box<dyn FnMut(&[u8])>> {
    Some(match id {
        "C07" => one(c07::C07),
        "C08" => one(c08::C08),
        "C09" => one(c09::C09::new()),
        "C10" => one(c10::C10),
        "C11" => one(c11::C11),
        "C12" => one(c12::C12),
        "C13" => one(c13::C13),
        "C14" => one(c14::C14),
        "C15" => one(c15::C15),
        "C17" => one(c17::C17),
        "C18" => one(c18::C18),
        _ => return None,
    })
}
