pub mod c07;
pub mod c08;
pub mod c09;
pub mod c10;
pub mod c19;
pub mod mu;
pub mod nat;
