pub mod c19;
pub mod nat;
