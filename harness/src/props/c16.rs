//! C16: malformed ELF input yields an error, never a crash or runaway allocation.
use super::mu::*;
use crate::elfb;
use crate::sup::{CaseOut, Property, Tier, Verdict};
use crate::tape::{Shape, Tape, TapeVal};
use crate::util::{self, Fnv};
use ax_x86::axecutor::Axecutor;
use serde::{Deserialize, Serialize};

#[derive(Clone, Debug, Serialize, Deserialize)]
pub struct Case {
    /// the mutated file, hex
    pub file: String,
    pub note: String,
}

pub struct C16 {
    seeds: Vec<Vec<u8>>,
}
impl C16 {
    pub fn new() -> C16 {
        C16 { seeds: vec![] }
    }
}

/// Largest single allocation request that can still be "related to the size of the input":
/// the loader's documented per-segment bound (1 GiB, page-rounded) or 64 × the input, whichever is larger.
pub fn alloc_cap(input_len: usize) -> usize {
    ((1usize << 30) + 0x2000).max(64 * input_len)
}

const VALUES: [u64; 16] = [0, 1, 0xfff, 0x1000, 0x1001, 1 << 31, 1 << 32, (1 << 30) + 1, 1 << 40, 1 << 47, 1 << 63, u64::MAX - 0xfff, u64::MAX - 0x1000, u64::MAX, 0x7fff_ffff_ffff_ffff, 0xffff_ffff];
const PTYPES: [u32; 16] = [0, 1, 2, 3, 4, 5, 6, 7, 8, 0x6474e550, 0x6474e551, 0x6474e552, 0x6474e553, 0x60000000, 0x70000000, 0xffff_ffff];

/// Judge one byte string. Shared with the libFuzzer target.
pub fn judge(bytes: &[u8]) -> Result<&'static str, (String, String)> {
    util::reset_max_request();
    let r = api(|| Axecutor::from_binary(bytes));
    let req = util::max_request();
    let cap = alloc_cap(bytes.len());
    let res = match r {
        Api::Ok(ax) => {
            // a loaded machine must also render (meta only for big areas: to_string truncates long data itself)
            let total: u64 = ax.verif_area_meta().iter().map(|m| m.3).sum();
            if total < (64 << 20) {
                if let Err(p) = util::catch(|| ax.to_string()) {
                    return Err((format!("render|{}", p.signature()), format!("to_string() of the loaded machine crashed: {} at {}", p.message, p.location)));
                }
            }
            "loads"
        }
        Api::Err(_) => "rejected",
        Api::Panic(p) => return Err((p.signature(), format!("from_binary crashed: {} at {}", p.message, p.location))),
    };
    if req > cap {
        return Err(("alloc|request-unrelated-to-input-size".into(), format!("from_binary requested a single allocation of {:#x} bytes for an input of {} bytes (cap {:#x})", req, bytes.len(), cap)));
    }
    Ok(res)
}

impl Property for C16 {
    type Case = Case;
    fn id(&self) -> &'static str {
        "C16"
    }
    fn shape(&self) -> Shape {
        Shape::flat(200)
    }
    fn cases(&self, tier: Tier) -> u64 {
        match tier {
            Tier::Quick => 250_000,
            Tier::Thorough => 5000000,
        }
    }
    fn claims_termination(&self) -> bool {
        true
    }
    fn case_from_raw(&mut self, raw: &[u8]) -> Option<Case> {
        Some(Case { file: util::hex(raw), note: "raw fuzzer input".into() })
    }
    fn setup(&mut self) {
        // address-space limit: a request of 2^40…2^64 bytes fails in the real allocator -> abort -> seen by the supervisor
        unsafe {
            let lim = libc::rlimit { rlim_cur: 24 << 30, rlim_max: 24 << 30 };
            libc::setrlimit(libc::RLIMIT_AS, &lim);
        }
        for n in super::c15::TESTDATA.iter() {
            if let Ok(b) = std::fs::read(format!("/repo/testdata/{}", n)) {
                if b.len() < (1 << 16) {
                    self.seeds.push(b);
                }
            }
        }
    }
    fn decode(&mut self, tape: &TapeVal) -> Case {
        let mut t = Tape::new(&tape[0]);
        // base file: generated well-formed file or a test binary
        let use_seed = !self.seeds.is_empty() && t.below(4) == 0;
        let (mut f, lay) = if use_seed {
            let b = self.seeds[t.below(self.seeds.len() as u64) as usize].clone();
            if b.len() < 64 {
                return Case { file: util::hex(&b), note: "short seed".into() };
            }
            let phoff = u64::from_le_bytes(b[32..40].try_into().unwrap()) as usize;
            let phnum = u16::from_le_bytes(b[56..58].try_into().unwrap()) as usize;
            let shoff = u64::from_le_bytes(b[40..48].try_into().unwrap()) as usize;
            let shnum = u16::from_le_bytes(b[60..62].try_into().unwrap()) as usize;
            let lay = elfb::Layout { phoff, phnum, shoff, shnum, seg_offsets: vec![], boundaries: vec![16, 64, phoff, phoff + 56 * phnum, shoff, b.len() / 2] };
            // skip the descriptor words so both branches consume the tape alike
            let mut skip = Tape::new(&tape[0][..0]);
            let _ = &mut skip;
            (b, lay)
        } else {
            let d = elfb::gen_desc(&mut t);
            elfb::build(&d)
        };
        let mut t = Tape::new(&tape[0][150..]);
        let mut note = String::new();
        let nm = 1 + t.weighted(&[60, 30, 10]);
        for _ in 0..nm {
            match t.weighted(&[35, 10, 12, 8, 15, 10, 10]) {
                0 => {
                    // program header field
                    if lay.phnum > 0 {
                        let i = t.below(lay.phnum as u64) as usize;
                        let (fo, fl, name): (usize, usize, &str) = t.pick(&[(0usize, 4usize, "p_type"), (4, 4, "p_flags"), (8, 8, "p_offset"), (16, 8, "p_vaddr"), (32, 8, "p_filesz"), (40, 8, "p_memsz"), (48, 8, "p_align")]);
                        let v: u64 = if name == "p_type" {
                            t.pick(&PTYPES) as u64
                        } else {
                            match t.below(6) {
                                0 => f.len() as u64,
                                1 => f.len() as u64 + 1,
                                2 => (f.len() as u64).wrapping_sub(1),
                                _ => t.pick(&VALUES),
                            }
                        };
                        let o = lay.phoff + 56 * i + fo;
                        if o + fl <= f.len() {
                            f[o..o + fl].copy_from_slice(&v.to_le_bytes()[..fl]);
                            note.push_str(&format!("ph[{}].{}={:#x} ", i, name, v));
                        }
                    }
                }
                1 => {
                    // ELF header field
                    let (o, l, name): (usize, usize, &str) = t.pick(&[(16usize, 2usize, "e_type"), (18, 2, "e_machine"), (20, 4, "e_version"), (24, 8, "e_entry"), (32, 8, "e_phoff"), (40, 8, "e_shoff"), (52, 2, "e_ehsize"), (54, 2, "e_phentsize"), (56, 2, "e_phnum"), (58, 2, "e_shentsize"), (60, 2, "e_shnum"), (62, 2, "e_shstrndx")]);
                    let v = match t.below(4) {
                        0 => f.len() as u64,
                        1 => t.below(0x100),
                        _ => t.pick(&VALUES),
                    };
                    if o + l <= f.len() {
                        f[o..o + l].copy_from_slice(&v.to_le_bytes()[..l]);
                        note.push_str(&format!("{}={:#x} ", name, v));
                    }
                }
                2 => {
                    // identification bytes
                    let o = 4 + t.below(5) as usize;
                    let v = t.pick(&[0u8, 1, 2, 3, 0xff]);
                    if o < f.len() {
                        f[o] = v;
                        note.push_str(&format!("e_ident[{}]={} ", o, v));
                    }
                }
                3 => {
                    // section header field
                    if lay.shnum > 0 && lay.shoff > 0 {
                        let i = t.below(lay.shnum as u64) as usize;
                        let (fo, fl, name): (usize, usize, &str) = t.pick(&[(0usize, 4usize, "sh_name"), (4, 4, "sh_type"), (24, 8, "sh_offset"), (32, 8, "sh_size"), (40, 4, "sh_link"), (56, 8, "sh_entsize")]);
                        let v = match t.below(3) {
                            0 => f.len() as u64,
                            _ => t.pick(&VALUES),
                        };
                        let o = lay.shoff + 64 * i + fo;
                        if o + fl <= f.len() {
                            f[o..o + fl].copy_from_slice(&v.to_le_bytes()[..fl]);
                            note.push_str(&format!("sh[{}].{}={:#x} ", i, name, v));
                        }
                    }
                }
                4 => {
                    // truncation at or near a structural boundary
                    let b = lay.boundaries[t.below(lay.boundaries.len() as u64) as usize];
                    let cut = (b as i64 + t.pick(&[0i64, -1, 1, -8, 8])).clamp(0, f.len() as i64) as usize;
                    f.truncate(cut);
                    note.push_str(&format!("truncate@{} ", cut));
                }
                5 => {
                    // random byte flips
                    for _ in 0..1 + t.below(4) {
                        if !f.is_empty() {
                            let o = t.below(f.len().min(0x400) as u64) as usize;
                            f[o] ^= 1 << t.below(8);
                        }
                    }
                    note.push_str("flips ");
                }
                _ => {
                    // splice: copy a chunk over another place
                    if f.len() > 128 {
                        let a = t.below(f.len() as u64 - 64) as usize;
                        let b = t.below(f.len() as u64 - 64) as usize;
                        let chunk: Vec<u8> = f[a..a + 56].to_vec();
                        f[b..b + 56].copy_from_slice(&chunk);
                        note.push_str(&format!("splice {}->{} ", a, b));
                    }
                }
            }
        }
        Case { file: util::hex(&f), note }
    }
    fn fixed_cases(&mut self, _tier: Tier) -> Vec<Case> {
        // degenerate inputs
        let mut v = vec![Case { file: String::new(), note: "empty".into() }, Case { file: "7f454c46".into(), note: "magic only".into() }];
        let (f, _) = elfb::build(&elfb::ElfDesc { entry: 0x401000, segs: vec![elfb::Seg { p_type: 1, flags: 5, vaddr: 0x401000, filesz: 16, memsz: 16, seed: 1 }], syms: None, with_shdrs: false });
        for cut in [1usize, 16, 63, 64, 65, 100, 120] {
            v.push(Case { file: util::hex(&f[..cut.min(f.len())]), note: format!("truncate@{}", cut) });
        }
        v
    }
    fn render(&mut self, c: &Case) -> serde_json::Value {
        serde_json::json!({"mutation": c.note, "file_len": c.file.len() / 2, "file_head": c.file.chars().take(128).collect::<String>()})
    }
    fn exec(&mut self, c: &Case) -> CaseOut {
        let bytes = util::unhex(&c.file);
        let mut h = Fnv::new();
        h.bytes(&bytes);
        let mut out = CaseOut::pass(false, h.finish());
        // does the input parse past the ELF header (reach the segment loop)?
        let past_header = bytes.len() >= 64 && &bytes[..4] == b"\x7fELF" && bytes[4] == 2 && bytes[5] == 1 && {
            let phoff = u64::from_le_bytes(bytes[32..40].try_into().unwrap());
            let phnum = u16::from_le_bytes(bytes[56..58].try_into().unwrap()) as u64;
            phnum > 0 && phoff.checked_add(56 * phnum).map(|e| e <= bytes.len() as u64).unwrap_or(false)
        };
        out.nontrivial = past_header && !self.seeds.iter().any(|s| *s == bytes);
        match judge(&bytes) {
            Ok(cls) => out.class(cls).class(if past_header { "reaches-segment-loop" } else { "stops-at-header" }),
            Err((sig, msg)) => {
                out.verdict = Verdict::Fail { sig: format!("C16|{}", sig), msg: format!("{}\n  mutation: {}\n  file length {}", msg, c.note, bytes.len()) };
                out.nontrivial = true;
                out
            }
        }
    }
    fn rule(&self) -> String {
        "cases: field-aware mutants of well-formed generated files (C15's generator) and of the repository's test binaries: 1–3 mutations per case from {program-header field := boundary value (0, 1, 0xfff, 0x1000, 2^30+1, 2^31, 2^32, 2^40, 2^47, 2^63, 2^64−0x1000, 2^64−1, file size ±1) or p_type over known and unknown types; ELF-header field; class/endianness/version bytes; section-header field; truncation at/around every structural boundary; bit flips; 56-byte splices}; oracle: from_binary under catch_unwind in a worker with RLIMIT_AS and a counting allocator returns Ok or Err; panic, abort, signal, reproduced hang, or a single allocation request above max(1 GiB + 2 pages, 64 × input length) is a violation; a loaded machine is also rendered; non-trivial = the input parses past the ELF header (valid ident, program header table inside the file) and differs from every seed; distinct by hash(file)".into()
    }
    fn required_classes(&self, _tier: Tier) -> Vec<String> {
        ["loads", "rejected", "reaches-segment-loop", "stops-at-header"].iter().map(|s| s.to_string()).collect()
    }
    fn assumptions(&self) -> Vec<String> {
        vec![
            "'an allocation unrelated to the size of the input' is made executable as a single request above max(1 GiB + 2 pages, 64 × input length); 1 GiB is the loader's own documented per-segment bound".into(),
            "check profile has debug assertions off (as the shipped build): the debug_log! arguments that unwrap p_type names are not evaluated".into(),
        ]
    }
}
