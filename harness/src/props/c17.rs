//! C17: stack initialisation yields the System V entry frame for any argv/envp.
use super::mu::*;
use crate::elfb;
use crate::sup::{CaseOut, Property, Tier, Verdict};
use crate::tape::{Shape, Tape, TapeVal};
use ax_x86::axecutor::Axecutor;
use ax_x86::state::registers::SupportedRegister as SR;
use serde::{Deserialize, Serialize};

#[derive(Clone, Debug, Serialize, Deserialize)]
pub struct Case {
    pub argv: Vec<String>,
    pub envp: Vec<String>,
    pub length: u64,
    /// 0: constructor code at 0x1000, 1: code high, 2: + extra areas, 3: generated ELF
    pub layout: u8,
    pub extra: Vec<(u64, u64)>,
    pub elf: Option<elfb::ElfDesc>,
    /// plain init_stack(length) instead of init_stack_program_start
    pub plain: bool,
}

pub struct C17;

fn gen_string(t: &mut Tape) -> String {
    let len = match t.below(12) {
        0 => 0,
        1 => 1,
        2 => 200,
        3 if t.below(8) == 0 => 10_000,
        _ => t.below(40),
    };
    let mut s = String::new();
    let seed = t.raw();
    for i in 0..len {
        let r = crate::util::mix2(seed, i);
        let ch = match r % 10 {
            0 => char::from_u32(0x80 + (r >> 8) as u32 % 0x700).unwrap_or('x'), // 2-byte UTF-8
            1 => '€',
            2 => '=',
            _ => (0x21 + ((r >> 8) % 0x5e) as u8) as char,
        };
        s.push(ch);
    }
    s
}

const POP_RAX: [u8; 2] = [0x58, 0x90];

impl Property for C17 {
    type Case = Case;
    fn id(&self) -> &'static str {
        "C17"
    }
    fn shape(&self) -> Shape {
        Shape::hist(2, 60, 6)
    }
    fn cases(&self, tier: Tier) -> u64 {
        match tier {
            Tier::Quick => 200_000,
            Tier::Thorough => 1500000,
        }
    }
    fn watchdog_s(&self) -> u64 {
        30
    }
    fn decode(&mut self, tape: &TapeVal) -> Case {
        let mut t = Tape::new(&tape[0]);
        let length = match t.below(8) {
            0 => t.pick(&[0x10u64, 0x18, 0x20, 0x40, 0x100]),
            1 => 0x1000,
            2 => 0x20000,
            3 => 8 * t.below(0x400) + t.below(8), // not a multiple of 16
            _ => 0x10 + t.below(0x4000),
        };
        let layout = t.below(4) as u8;
        let plain = t.below(10) == 0;
        let many = t.below(300) == 0;
        let mut argv = vec![];
        let mut envp = vec![];
        let rows: Vec<&Vec<u64>> = tape.iter().skip(1).collect();
        let split = if rows.is_empty() { 0 } else { Tape::new(rows[0]).below(rows.len() as u64 + 1) as usize };
        for (i, row) in rows.iter().enumerate() {
            let mut t = Tape::new(row);
            let _ = t.raw();
            let s = gen_string(&mut t);
            if i < split {
                argv.push(s);
            } else {
                envp.push(s);
            }
        }
        if many {
            let n = 150 + t.below(450);
            for i in 0..n {
                argv.push(format!("a{}", i));
            }
        }
        let extra = if layout == 2 { (0..1 + t.below(3)).map(|k| (0x2000 + 0x2000 * k, 1 + t.below(0x1800))).collect() } else { vec![] };
        let mut t2 = Tape::new(&tape[0][3..]);
        let elf = if layout == 3 { Some(elfb::gen_desc(&mut t2)) } else { None };
        Case { argv, envp, length, layout, extra, elf, plain }
    }

    fn render(&mut self, c: &Case) -> serde_json::Value {
        serde_json::json!({"argc": c.argv.len(), "envc": c.envp.len(), "length": c.length, "layout": c.layout, "plain": c.plain,
            "argv_head": c.argv.iter().take(3).map(|s| s.chars().take(30).collect::<String>()).collect::<Vec<_>>(),
            "longest": c.argv.iter().chain(c.envp.iter()).map(|s| s.len()).max().unwrap_or(0)})
    }

    fn exec(&mut self, c: &Case) -> CaseOut {
        let mut out = CaseOut::pass(false, hash_json(c));
        let fail = |out: &mut CaseOut, sig: &str, msg: String| {
            out.verdict = Verdict::Fail { sig: format!("C17|{}", sig), msg };
            out.nontrivial = true;
        };
        // the machine: its code is `pop rax; nop` repeated so that the guest's view can be taken by executing pops
        let n_pops = c.argv.len() + c.envp.len() + 4;
        let mut code = vec![];
        for _ in 0..n_pops {
            code.extend_from_slice(&POP_RAX);
        }
        code.push(0x90);
        let (mut ax, code_at): (Axecutor, u64) = match c.layout {
            3 => {
                let mut d = c.elf.clone().unwrap();
                // make the first loadable segment executable code we can run: replace by our own image
                let (file, _) = elfb::build(&d);
                match api(|| Axecutor::from_binary(&file)) {
                    Api::Ok(mut a) => {
                        // place the pop code in a fresh area high up
                        let at = 0x7000_0000u64;
                        if a.mem_init_area(at, code.clone()).is_err() || a.mem_prot(at, 5).is_err() {
                            return CaseOut::discard("could-not-place-pop-code");
                        }
                        a.reg_write_64(SR::RIP, at).unwrap();
                        d.entry = at;
                        (a, at)
                    }
                    _ => return CaseOut::discard("generated-elf-did-not-load (C15)"),
                }
            }
            l => {
                let at = if l == 1 { 0x7000_0000u64 } else { 0x1000 };
                match api(|| Axecutor::new(&code, at, at)) {
                    Api::Ok(a) => (a, at),
                    other => return CaseOut::fail("HARNESS-FAULT|C17-new".into(), other.short()),
                }
            }
        };
        for (s, l) in &c.extra {
            let _ = ax.mem_init_zero(*s, *l);
        }
        let image: Vec<(u64, u64)> = ax.verif_area_meta().iter().map(|m| (m.0, m.1)).collect();
        let n = c.argv.len() + c.envp.len();
        out.nontrivial = (!c.argv.is_empty() && !c.envp.is_empty()) || (8 * (n as u64 + 3)) * 4 > c.length;
        out = out.class(format!("layout:{}", c.layout));
        if 8 * (n as u64 + 3) > c.length {
            out = out.class("frame-larger-than-requested-stack");
        }
        if n % 2 == 1 {
            out = out.class("odd-count");
        } else {
            out = out.class("even-count");
        }
        if c.plain {
            out = out.class("plain-init-stack");
            let r = api(|| ax.init_stack(c.length));
            match r {
                Api::Ok(start) => {
                    let rsp = ax.reg_read_64(SR::RSP).unwrap();
                    if rsp % 16 != 0 {
                        fail(&mut out, "plain|rsp-misaligned", format!("init_stack({}) left rsp {:#x}", c.length, rsp));
                        return out;
                    }
                    if c.length >= 16 && !(rsp >= start && rsp < start + c.length) {
                        fail(&mut out, "plain|rsp-outside-stack", format!("init_stack({}) at {:#x} left rsp {:#x}", c.length, start, rsp));
                        return out;
                    }
                    if image.iter().any(|(s, l)| start < s + l && *s < start + c.length && *l > 0 && c.length > 0) {
                        fail(&mut out, "plain|stack-overlaps-image", format!("stack {:#x}+{:#x} overlaps an existing area", start, c.length));
                        return out;
                    }
                    // the fresh stack works as the guest uses it: a PUSH and the matching POP succeed and
                    // return the value (whatever slot convention the emulator follows)
                    if c.length >= 64 && ax.mem_init_area(0x7200_0000, vec![0x50, 0x5b, 0x90, 0x90]).is_ok() && ax.mem_prot(0x7200_0000, 5).is_ok() {
                        ax.reg_write_64(SR::RIP, 0x7200_0000).unwrap();
                        ax.reg_write_64(SR::RAX, 0x1122_3344_5566_7788).unwrap();
                        ax.reg_write_64(SR::RBX, 0).unwrap();
                        let r1 = step(&mut ax);
                        let r2 = if r1.is_ok() { step(&mut ax) } else { Api::Ok(true) };
                        out = out.class("plain-init-stack:push-pop-probe");
                        if !r1.is_ok() || !r2.is_ok() || ax.reg_read_64(SR::RBX).unwrap() != 0x1122_3344_5566_7788 {
                            fail(&mut out, "plain|first-push-pop-fails", format!("init_stack({}) at {:#x} left rsp {:#x}; push rax answered {}, pop rbx answered {} (rbx={:#x})", c.length, start, rsp, r1.short(), r2.short(), ax.reg_read_64(SR::RBX).unwrap()));
                            return out;
                        }
                    }
                }
                other => {
                    fail(&mut out, &format!("plain|{}", if let Api::Panic(p) = &other { p.signature() } else { "failed".into() }), format!("init_stack({}) answered {}", c.length, other.short()));
                    return out;
                }
            }
            return out;
        }
        let r = api(|| ax.init_stack_program_start(c.length, c.argv.clone(), c.envp.clone()));
        let start = match r {
            Api::Ok(s) => s,
            other => {
                fail(&mut out, &format!("init|{}", if let Api::Panic(p) = &other { p.signature() } else { "failed".into() }), format!("init_stack_program_start(length {}, {} args, {} env) answered {}", c.length, c.argv.len(), c.envp.len(), other.short()));
                return out;
            }
        };
        let rsp = ax.reg_read_64(SR::RSP).unwrap();
        if rsp % 16 != 0 {
            fail(&mut out, "frame|rsp-misaligned", format!("rsp {:#x} is not 16-byte aligned", rsp));
            return out;
        }
        // areas: pairwise disjoint, nothing collides with the image
        let areas = ax.verif_area_meta();
        for (i, a) in areas.iter().enumerate() {
            for b in areas.iter().skip(i + 1) {
                let (a0, a1) = (a.0 as u128, a.0 as u128 + a.1 as u128);
                let (b0, b1) = (b.0 as u128, b.0 as u128 + b.1 as u128);
                if a0 < b1 && b0 < a1 && a.1 > 0 && b.1 > 0 {
                    fail(&mut out, "areas|overlap", format!("areas {:#x}+{:#x} and {:#x}+{:#x} overlap after stack initialisation", a.0, a.1, b.0, b.1));
                    return out;
                }
            }
        }
        let stack_area = match areas.iter().find(|m| m.0 == start) {
            Some(m) => *m,
            None => {
                fail(&mut out, "frame|no-stack-area", format!("no area starts at the returned stack start {:#x}", start));
                return out;
            }
        };
        // free space below the stack pointer
        let free = rsp.wrapping_sub(start);
        if !(rsp >= start && free + 48 >= c.length && free <= c.length + 48) {
            fail(&mut out, "frame|space-below-rsp", format!("requested {} bytes of stack, {} bytes lie between the start of the stack area ({:#x}) and rsp ({:#x}); {} frame entries", c.length, free as i64, start, rsp, n + 3));
            return out;
        }
        // the guest's view: pop everything
        let mut pops: Vec<u64> = vec![];
        ax.reg_write_64(SR::RIP, code_at).unwrap();
        for k in 0..(n + 3) {
            ax.reg_write_64(SR::RIP, code_at + 2 * k as u64).unwrap();
            match step(&mut ax) {
                Api::Ok(_) => pops.push(ax.reg_read_64(SR::RAX).unwrap()),
                other => {
                    fail(&mut out, "frame|pop-failed", format!("pop #{} of the entry frame answered {}", k, other.short()));
                    return out;
                }
            }
        }
        if pops[0] != c.argv.len() as u64 {
            fail(&mut out, "frame|argc", format!("the first pop yields {}, argc is {}", pops[0], c.argv.len()));
            return out;
        }
        let read_cstr = |ax: &Axecutor, p: u64, max: usize| -> Option<Vec<u8>> {
            let area = ax.verif_area_meta().into_iter().find(|m| p >= m.0 && p - m.0 < m.1)?;
            if area.2 & 3 != 3 {
                return None; // must be readable and writable
            }
            let data = ax.verif_area_data(area.0)?;
            let off = (p - area.0) as usize;
            let end = data[off..].iter().take(max + 1).position(|b| *b == 0)?;
            Some(data[off..off + end].to_vec())
        };
        let mut idx = 1;
        let mut ranges: Vec<(u64, u64)> = vec![(rsp.min(start), stack_area.1)];
        // where the frame ends: POP either reads at RSP (hardware) or at RSP+8 (this emulator, KF-C04-1);
        // tell the two apart by where argc and the first pointer sit, and when in doubt take the lower end
        let rsp_after = ax.reg_read_64(SR::RSP).unwrap();
        let slot = |a: u64| -> Option<u64> {
            let m = ax.verif_area_meta().into_iter().find(|m| a >= m.0 && a - m.0 + 8 <= m.1)?;
            let d = ax.verif_area_data(m.0)?;
            Some(u64::from_le_bytes(d[(a - m.0) as usize..(a - m.0) as usize + 8].try_into().unwrap()))
        };
        let hw = slot(rsp) == Some(pops[0]) && slot(rsp + 8) == Some(pops[1]);
        let emu = slot(rsp + 8) == Some(pops[0]) && slot(rsp + 16) == Some(pops[1]);
        let frame_end = if emu && !hw { rsp_after.wrapping_add(8) } else { rsp_after };
        for (kind, list) in [("argument", &c.argv), ("environment entry", &c.envp)] {
            for (i, s) in list.iter().enumerate() {
                let p = pops[idx];
                idx += 1;
                match read_cstr(&ax, p, s.len()) {
                    Some(b) if b == s.as_bytes() => ranges.push((p, s.len() as u64 + 1)),
                    other => {
                        fail(&mut out, "frame|string", format!("{} {} pointer {:#x} does not point to a NUL-terminated copy of {:?} in mapped RW memory (found {:?})", kind, i, p, s.chars().take(40).collect::<String>(), other.map(|b| String::from_utf8_lossy(&b[..b.len().min(40)]).to_string())));
                        return out;
                    }
                }
                if image.iter().any(|(st, l)| p < st + l && *st < p + s.len() as u64 + 1) {
                    fail(&mut out, "frame|string-collides-with-image", format!("{} {} at {:#x} lies inside the program image", kind, i, p));
                    return out;
                }
            }
            if pops[idx] != 0 {
                fail(&mut out, "frame|missing-null", format!("the {} list is not followed by a null (popped {:#x})", kind, pops[idx]));
                return out;
            }
            idx += 1;
        }
        // strings and frame mutually disjoint
        for (i, a) in ranges.iter().enumerate().skip(1) {
            for b in ranges.iter().skip(i + 1) {
                if a.0 < b.0 + b.1 && b.0 < a.0 + a.1 {
                    fail(&mut out, "frame|strings-overlap", format!("strings at {:#x}+{} and {:#x}+{} overlap", a.0, a.1, b.0, b.1));
                    return out;
                }
            }
            // the free stack space and the frame itself end where the last popped slot ends; a string
            // may share the stack's area above that (the Linux layout) but not lie below it
            if a.0 < frame_end && start < a.0 + a.1 {
                fail(&mut out, "frame|string-inside-frame-or-free-stack", format!("string at {:#x}+{} overlaps the free stack space or the frame ({:#x}..{:#x})", a.0, a.1, start, frame_end));
                return out;
            }
        }
        out
    }
    fn rule(&self) -> String {
        "cases: argv/envp lists of 0–59 entries (1/300 of the cases 150–600 more), strings of 0–200 bytes (occasionally 10 KiB) incl. empty and multi-byte UTF-8, no interior NUL; stack sizes 0x10…0x20000 incl. non-multiples of 16 and sizes smaller than the frame; layouts: constructor code at 0x1000 / high, extra areas, a loaded generated ELF; 1/10 plain init_stack (RSP aligned and inside the stack, no collision, and a first PUSH/POP pair works); oracle: the guest's view by executing POP instructions (argc, argv pointers to NUL-terminated copies in mapped RW memory, null, envp likewise, null), RSP % 16 = 0, frame, free stack space, strings and image pairwise disjoint (strings may share the stack's area above the frame), free space below RSP within ±48 bytes of the request, the call succeeds; non-trivial = ≥1 argument and ≥1 environment entry, or a frame larger than 1/4 of the stack size; distinct by hash(case)".into()
    }
    fn required_classes(&self, _tier: Tier) -> Vec<String> {
        ["layout:0", "layout:1", "layout:2", "layout:3", "frame-larger-than-requested-stack", "odd-count", "even-count", "plain-init-stack"].iter().map(|s| s.to_string()).collect()
    }
    fn assumptions(&self) -> Vec<String> {
        vec!["'popping' uses the emulator's own POP (its slot convention, KF-C04-1, is consistent between the initialiser and POP), i.e. the frame is judged as the guest observes it".into(), "alignment padding tolerance for the free space below RSP: ±48 bytes".into()]
    }
}
