//! C19: a step on arbitrary code bytes and state terminates with Ok or Err.
use crate::diff::*;
use crate::insn::{self, GenOpts};
use crate::mach::NCase;
use crate::native::*;
use crate::sup::{CaseOut, Property, Tier, Verdict};
use crate::tape::{Shape, Tape, TapeVal};
use crate::util::{hex, Fnv};
use iced_x86::*;
use serde_json::Value;

pub struct C19 {
    eng: Option<Engine>,
    opts: Option<GenOpts>,
    /// opcode bytes (with map) used by candidate forms, for the opcode-restricted structured layer
    opcodes: Vec<(u8, u8)>,
}

impl C19 {
    pub fn new() -> C19 {
        C19 { eng: None, opts: None, opcodes: vec![] }
    }
    fn eng(&mut self) -> &mut Engine {
        self.eng.as_mut().unwrap()
    }
}

fn biased_reg(t: &mut Tape) -> u64 {
    match t.below(10) {
        0 => 0,
        1 => RW_BASE + t.below(RW_LEN as u64),
        2 => STK_BASE + t.below(STK_LEN as u64 + 16),
        3 => CODE_BASE + t.below(CODE_LEN as u64 + 16),
        4 => u64::MAX - t.below(32),
        5 => t.below(256),
        6 => RO_BASE + t.below(RO_LEN as u64),
        7 => RW_BASE + RW_LEN as u64 - t.below(32),
        _ => t.val64(),
    }
}

impl Property for C19 {
    type Case = NCase;
    fn id(&self) -> &'static str {
        "C19"
    }
    fn shape(&self) -> Shape {
        Shape::flat(128)
    }
    fn cases(&self, tier: Tier) -> u64 {
        match tier {
            Tier::Quick => 6_000_000,
            Tier::Thorough => 300_000_000,
        }
    }
    fn claims_termination(&self) -> bool {
        true
    }
    fn case_from_raw(&mut self, raw: &[u8]) -> Option<NCase> {
        Some(self.decode(&vec![tape_from_bytes(raw)]))
    }
    fn setup(&mut self) {
        let eng = Engine::new_emu_only();
        let all: Vec<usize> = (0..eng.forms.len()).collect();
        let mut o = GenOpts::faulty(all);
        o.mutate16 = 0;
        o.allow_fs = true;
        let mut ops = vec![];
        for f in &eng.forms {
            let oc = f.code.op_code();
            let map = match oc.table() {
                OpCodeTableKind::Normal => 0u8,
                OpCodeTableKind::T0F => 1,
                OpCodeTableKind::T0F38 => 2,
                OpCodeTableKind::T0F3A => 3,
                _ => 0,
            };
            let op = oc.op_code() as u8;
            if !ops.contains(&(map, op)) {
                ops.push((map, op));
            }
        }
        ops.sort();
        self.opcodes = ops;
        self.opts = Some(o);
        self.eng = Some(eng);
    }

    fn decode(&mut self, tape: &TapeVal) -> NCase {
        let mut t = Tape::new(&tape[0]);
        let layer = t.weighted(&[25, 25, 25, 25]);
        let opts = self.opts.clone().unwrap();
        let opcodes = self.opcodes.clone();
        let eng = self.eng();
        let mut c = if layer == 0 {
            // mutations of valid encodings of every candidate form
            match insn::gen_case(&mut t, &eng.forms, &opts) {
                Some(mut c) => {
                    let mut b = c.code_bytes();
                    let nm = t.below(3);
                    for _ in 0..nm {
                        b = mutate_any(&mut t, &b);
                    }
                    b.truncate(15);
                    c.code = hex(&b);
                    c.note = format!("mutated×{} {}", nm, c.note);
                    c
                }
                None => blank(),
            }
        } else {
            let mut c = blank();
            for g in c.gpr.iter_mut() {
                *g = biased_reg(&mut t);
            }
            c.rflags = t.raw() & GUEST_FLAG_MASK;
            c.mem_seed = t.raw();
            c.fs = if t.below(4) == 0 { t.val64() } else { 0 };
            c.gs = if t.below(4) == 0 { t.val64() } else { 0 };
            let bytes: Vec<u8> = match layer {
                1 => {
                    let n = 1 + t.below(15);
                    (0..n).map(|_| t.raw() as u8).collect()
                }
                _ => {
                    // [prefixes][REX][opcode][ModRM][SIB][disp][imm]
                    let mut b = vec![];
                    let np = t.weighted(&[50, 30, 15, 5]);
                    for _ in 0..np {
                        b.push(t.pick(&[0x66u8, 0x67, 0xf2, 0xf3, 0x2e, 0x36, 0x3e, 0x26, 0x64, 0x65, 0xf0]));
                    }
                    if t.bool() {
                        b.push(0x40 | t.below(16) as u8);
                    }
                    let (map, op) = if layer == 2 { (t.weighted(&[70, 24, 3, 3]) as u8, t.raw() as u8) } else { t.pick(&opcodes) };
                    match map {
                        1 => b.push(0x0f),
                        2 => b.extend_from_slice(&[0x0f, 0x38]),
                        3 => b.extend_from_slice(&[0x0f, 0x3a]),
                        _ => {}
                    }
                    // +r forms: the low 3 bits of the opcode select the register
                    let op = if layer == 3 && matches!(op & 0xf8, 0x50 | 0x58 | 0xb0 | 0xb8) && map == 0 { (op & 0xf8) | t.below(8) as u8 } else { op };
                    b.push(op);
                    let modrm = t.raw() as u8;
                    b.push(modrm);
                    if modrm >> 6 != 3 && modrm & 7 == 4 {
                        b.push(t.raw() as u8);
                    }
                    let extra = t.below(10);
                    for _ in 0..extra {
                        let x = match t.below(4) {
                            0 => 0,
                            1 => 0xff,
                            _ => t.raw() as u8,
                        };
                        b.push(x);
                    }
                    b.truncate(15);
                    b
                }
            };
            c.code = hex(&bytes);
            c.note = format!("layer{}", layer);
            c
        };
        // layouts
        c.layout = t.weighted(&[70, 15, 15]) as u8;
        let n = c.code_bytes().len() as u64;
        match t.weighted(&[80, 10, 10]) {
            1 => c.rip = CODE_BASE + CODE_LEN as u64 - n, // ends exactly at the area end
            2 => c.rip = CODE_BASE + CODE_LEN as u64 - 1 - t.below(n.max(1)), // fetch shorter than the instruction
            _ => {}
        }
        // RSP at area edges now and then
        if t.below(8) == 0 {
            c.gpr[4] = t.pick(&[STK_BASE, STK_BASE + STK_LEN as u64, STK_BASE + STK_LEN as u64 - 8, STK_BASE - 8, u64::MAX, u64::MAX - 7, 0, 8]);
        }
        // now and then the step starts from a machine that has already run: unmatched returns,
        // nested calls, repeated jumps (trace and call-stack bookkeeping are part of "any state")
        if t.below(4) == 0 {
            let n = 1 + t.below(6);
            c.pre = (0..n).map(|_| t.pick(&['r', 'r', 'c', 'J', 'J', 'j', 'x'])).collect();
        }
        c
    }

    fn render(&mut self, case: &NCase) -> Value {
        let mut v = self.eng().render(case);
        v["layout"] = serde_json::json!(case.layout);
        v["prelude"] = serde_json::json!(case.pre);
        v
    }

    fn exec(&mut self, c: &NCase) -> CaseOut {
        if c.code.is_empty() {
            return CaseOut::discard("unencodable");
        }
        let d = self.eng().run(c, false);
        if let Some(hf) = super::nat::harness_fault(&d) {
            return hf;
        }
        let code = if d.valid { format!("{:?}", d.ins.code()) } else { "INVALID".to_string() };
        let in_floor = d.valid && self.eng().floor.contains(&code);
        let mut h = Fnv::new();
        h.str(&code);
        for i in 0..d.ins.op_count() {
            h.u64(d.ins.op_kind(i) as u64);
        }
        h.u64(d.ins.has_rep_prefix() as u64 | (d.ins.has_lock_prefix() as u64) << 1 | (d.ins.segment_prefix() as u64) << 8);
        let outcome_cls = match &d.emu {
            Emu::Ok(_) => 0u64,
            Emu::Err(_) => 1,
            Emu::Panic(_) => 2,
        };
        h.u64(outcome_cls).u64(c.layout as u64).str(&c.code).str(&c.pre);
        let mut out = CaseOut::pass(d.valid, h.finish());
        let cls = match (&d.emu, d.valid, in_floor) {
            (_, false, _) => "undecodable-or-truncated",
            (Emu::Ok(_), true, true) => "implemented/Ok",
            (Emu::Err(_), true, true) => "implemented/Err",
            (Emu::Ok(_), true, false) => "not-in-floor/Ok",
            (Emu::Err(_), true, false) => "not-in-floor/Err",
            (Emu::Panic(_), _, _) => "panic",
        };
        out = out.class(cls).class(format!("layer:{}", c.note.split(' ').next().unwrap_or("")));
        if !c.pre.is_empty() {
            out = out.class("after-prelude");
            if c.pre.contains('r') {
                out = out.class("after-unmatched-return");
            }
        }
        match &d.emu {
            Emu::Panic(p) => {
                out.verdict = Verdict::Fail {
                    sig: format!("C19|{}", p.signature()),
                    msg: format!("step panicked: {} at {}\n  bytes: {} ({})\n  rip={:#x} layout={} rsp={:#x}", p.message, p.location, c.code, if d.valid { format!("{}", d.ins) } else { "invalid".into() }, c.rip, c.layout, c.gpr[4]),
                };
            }
            Emu::Err(e) => {
                if e.trim().is_empty() {
                    out.verdict = Verdict::Fail { sig: "C19|empty-error-text".into(), msg: format!("error renders to an empty string for bytes {}", c.code) };
                }
            }
            Emu::Ok(_) => {
                // "undecodable, unsupported … instructions are reported as errors" — what the fetch sees does
                // not decode, or decodes to a mnemonic the emulator itself lists as unsupported (which *forms* of
                // a supported mnemonic are implemented is not judged: that set may grow)
                if !d.valid {
                    out.verdict = Verdict::Fail { sig: "C19|undecodable-bytes-reported-as-success".into(), msg: format!("the bytes {} at {:#x} (layout {}) do not decode, yet the step returned Ok", c.code, c.rip, c.layout) };
                } else if !insn::mnemonic_supported(d.ins.mnemonic()) {
                    out.verdict = Verdict::Fail { sig: format!("C19|unsupported-mnemonic-reported-as-success|{:?}", d.ins.mnemonic()), msg: format!("{} [{}] is not among the supported mnemonics, yet the step returned Ok", d.ins, c.code) };
                }
            }
        }
        out
    }

    fn rule(&self) -> String {
        "cases: four byte-level layers in equal parts — mutated valid encodings of every candidate form, uniform 1–15 bytes, [prefixes][REX][any opcode][ModRM][SIB][tail], and the same with the opcode drawn from the opcodes of supported mnemonics — × biased register states × layouts (all arenas / code only / code+rw, instruction at or across the end of the code area, RSP at edges) × for 1/4 of the cases a prelude of 1–6 already executed ret/call/jmp steps (unmatched returns, nesting, collapsed jumps) or of other bytes executed at the same address after which registers and arenas are reset to the case's; non-trivial = bytes decode to a valid instruction; distinct by (Code, operand kinds, prefixes, outcome class, layout, bytes)".into()
    }
    fn required_classes(&self, _tier: Tier) -> Vec<String> {
        vec!["implemented/Ok".into(), "implemented/Err".into(), "not-in-floor/Err".into(), "undecodable-or-truncated".into(), "after-unmatched-return".into()]
    }
    fn assumptions(&self) -> Vec<String> {
        vec![
            "native x86-64 build with --cfg ax_verif (fatal_error!/opcode_unimplemented! return Err as on wasm32), overflow checks on".into(),
            "a hang is a case that exceeds the 10 s watchdog and again 60 s when re-run alone".into(),
        ]
    }
}

/// Byte string -> choice tape (little-endian words, zero padded to the tape length): lets a
/// coverage-guided byte-level fuzzer drive the same structured generator and oracle.
pub fn tape_from_bytes(raw: &[u8]) -> Vec<u64> {
    let mut t: Vec<u64> = raw.chunks(8).map(|c| {
        let mut b = [0u8; 8];
        b[..c.len()].copy_from_slice(c);
        u64::from_le_bytes(b)
    }).collect();
    t.resize(128, 0);
    t
}

fn blank() -> NCase {
    NCase { code: String::new(), rip: CODE_BASE + 0x100, gpr: [0; 16], rflags: 0, xmm: [[0; 2]; 16], fs: 0, gs: 0, mem_seed: 0, patches: vec![], note: String::new(), layout: 0, steps: 0, pre: String::new() }
}

fn mutate_any(t: &mut Tape, b: &[u8]) -> Vec<u8> {
    let mut m = b.to_vec();
    if m.is_empty() {
        return m;
    }
    match t.below(6) {
        0 => m.insert(0, t.pick(&[0x66u8, 0x67, 0xf2, 0xf3, 0x2e, 0x36, 0x3e, 0x26, 0x64, 0x65, 0xf0])),
        1 => {
            let i = t.below(m.len() as u64) as usize;
            m[i] ^= 1 << t.below(8);
        }
        2 => {
            let i = t.below(m.len() as u64) as usize;
            m[i] = t.raw() as u8;
        }
        3 => {
            let i = m.iter().position(|x| !insn::is_legacy_prefix(*x)).unwrap_or(0);
            if i < m.len() && m[i] & 0xf0 == 0x40 {
                m[i] = 0x40 | t.below(16) as u8;
            } else {
                m.insert(i.min(m.len()), 0x40 | t.below(16) as u8);
            }
        }
        4 => {
            let n = 1 + t.below(m.len() as u64) as usize;
            m.truncate(n);
        }
        _ => m.push(t.raw() as u8),
    }
    m
}
