//! C12: hooks bracket the instruction, short-circuit, stop and fail cleanly.
use super::mu::*;
use crate::prog::{self, Event, HookScript, Outcome, PI};
use crate::sup::{CaseOut, Property, Tier, Verdict};
use crate::tape::{Shape, Tape, TapeVal};
use ax_x86::auto::generated::SupportedMnemonic;
use ax_x86::axecutor::Axecutor;
use ax_x86::state::registers::SupportedRegister as SR;
use iced_x86::{Decoder, DecoderOptions, Mnemonic};
use serde::{Deserialize, Serialize};
use std::convert::TryFrom;

const BASE: u64 = 0x40_0000;

#[derive(Clone, Debug, Serialize, Deserialize)]
pub struct HookSpec {
    /// index into MNEMS
    pub mnemonic: usize,
    pub after: bool,
    pub outcomes: Vec<Outcome>,
    pub modify: Option<(u8, u64)>,
}

#[derive(Clone, Debug, Serialize, Deserialize)]
pub struct Case {
    pub prog: Vec<PI>,
    pub seed: u64,
    pub hooks: Vec<HookSpec>,
    pub register_inside: Option<usize>,
    pub use_execute: bool,
}

pub const MNEMS: [Mnemonic; 16] = [
    Mnemonic::Nop,
    Mnemonic::Mov,
    Mnemonic::Add,
    Mnemonic::Sub,
    Mnemonic::Xor,
    Mnemonic::Cmp,
    Mnemonic::Inc,
    Mnemonic::Jmp,
    Mnemonic::Jne,
    Mnemonic::Je,
    Mnemonic::Call,
    Mnemonic::Ret,
    Mnemonic::Push,
    Mnemonic::Pop,
    Mnemonic::Syscall,
    Mnemonic::Xorps, // never in a generated program: a foreign mnemonic
];

pub struct C12;

fn gen_outcome(t: &mut Tape) -> Outcome {
    [Outcome::Unhandled, Outcome::Handled, Outcome::StopUnhandled, Outcome::StopHandled, Outcome::Fail, Outcome::StopFail][t.weighted(&[58, 20, 6, 6, 7, 3])]
}

fn build(c: &Case) -> Result<Axecutor, String> {
    let img = prog::assemble(&c.prog, BASE);
    let mut ax = Axecutor::new(&img, BASE, BASE).map_err(|e| e.to_string())?;
    init_regs(&mut ax, c.seed);
    ax.init_stack(0x400).map_err(|e| e.to_string())?;
    ax.set_max_instructions(200);
    Ok(ax)
}

impl Property for C12 {
    type Case = Case;
    fn id(&self) -> &'static str {
        "C12"
    }
    fn shape(&self) -> Shape {
        Shape::hist(4, 20, 10)
    }
    fn cases(&self, tier: Tier) -> u64 {
        match tier {
            Tier::Quick => 1_500_000,
            Tier::Thorough => 20_000_000,
        }
    }
    fn decode(&mut self, tape: &TapeVal) -> Case {
        let mut t = Tape::new(&tape[0]);
        let seed = t.raw();
        let nh = 1 + t.below(8) as usize; // hook rows
        let nh = nh.min(tape.len().saturating_sub(3));
        let use_execute = t.below(3) == 0;
        let register_inside = if t.below(4) == 0 { Some(t.below(nh.max(1) as u64) as usize) } else { None };
        let prog_rows = &tape[1 + nh..];
        let n = prog_rows.len();
        let mut o = prog::ProgOpts::straight();
        o.backward = false;
        o.end_targets = false;
        o.w = [14, 14, 10, 6, 6, 8, 6, 2, 0, 5, 2, 3, 4, 4, 6, 0];
        let mut p = vec![];
        for (i, row) in prog_rows.iter().enumerate() {
            let mut t = Tape::new(row);
            p.push(prog::gen_slot(&mut t, i, n, &o));
        }
        // hook specs: concentrate on few mnemonics so that several hooks share one
        let focus: Vec<usize> = (0..3).map(|_| t.below(MNEMS.len() as u64) as usize).collect();
        let mut hooks = vec![];
        for row in tape.iter().skip(1).take(nh) {
            let mut t = Tape::new(row);
            let mnemonic = if t.below(5) == 0 { t.below(MNEMS.len() as u64) as usize } else { focus[t.below(3) as usize] };
            let after = t.bool();
            let k = 1 + t.below(3);
            let outcomes = (0..k).map(|_| gen_outcome(&mut t)).collect();
            let modify = match t.below(8) {
                0 | 1 => Some((t.pick(&[0u8, 1, 2, 3, 6, 7, 8, 9]), t.val64())),
                // redirect execution: RIP := a slot address (only meaningful from a before-hook; it must persist)
                2 if n > 0 => Some((16u8, prog::slot_addr(BASE, t.below(n as u64) as usize))),
                _ => None,
            };
            hooks.push(HookSpec { mnemonic, after, outcomes, modify });
        }
        Case { prog: p, seed, hooks, register_inside, use_execute }
    }

    fn exec(&mut self, c: &Case) -> CaseOut {
        let mut out = CaseOut::pass(false, hash_json(c));
        let fail = |out: &mut CaseOut, sig: &str, msg: String| {
            out.verdict = Verdict::Fail { sig: format!("C12|{}", sig), msg };
            out.nontrivial = true;
        };
        let img = prog::assemble(&c.prog, BASE);
        let script = HookScript { outcomes: c.hooks.iter().map(|h| h.outcomes.clone()).collect(), modify: c.hooks.iter().map(|h| h.modify).collect(), register_inside: c.register_inside };
        prog::reset_hooks(script.clone());
        let mut h = match build(c) {
            Ok(a) => a,
            Err(e) => return CaseOut::fail("HARNESS-FAULT|C12-build".into(), e),
        };
        let mut twin = build(c).unwrap();
        for (id, hs) in c.hooks.iter().enumerate() {
            let m = SupportedMnemonic::try_from(MNEMS[hs.mnemonic]).unwrap();
            let r = if hs.after { h.hook_after_mnemonic_native(m, prog::hook_fn(id)) } else { h.hook_before_mnemonic_native(m, prog::hook_fn(id)) };
            if let Err(e) = r {
                fail(&mut out, "register|refused-before-run", format!("registering hook {} before the run failed: {}", id, e));
                return out;
            }
        }
        let multi = (0..MNEMS.len()).any(|m| c.hooks.iter().filter(|h| h.mnemonic == m).count() >= 2);
        let shortc = c.hooks.iter().any(|h| h.outcomes.iter().any(|o| *o != Outcome::Unhandled));
        out.nontrivial = multi && shortc;
        let mut classes: Vec<&'static str> = vec![];

        if c.use_execute {
            // whole-run check: execute() result vs the step-wise prediction is covered by C11's twins;
            // here: stop => Ok, failing hook => Err, and registration afterwards works
            let r = execute(&mut h);
            let ev = prog::take_events();
            if let Api::Panic(p) = &r {
                fail(&mut out, &format!("execute|{}", p.signature()), format!("execute crashed: {} at {}", p.message, p.location));
                return out;
            }
            let last = ev.last();
            if let Some(e) = last {
                match e.outcome {
                    Outcome::Fail | Outcome::StopFail => {
                        classes.push("run:hook-failed");
                        if !r.is_err() {
                            fail(&mut out, "fail|failing-hook-did-not-fail-the-run", format!("hook {} failed but execute() answered {}", e.hook, r.short()));
                            return out;
                        }
                    }
                    Outcome::StopHandled | Outcome::StopUnhandled => {
                        classes.push("run:stopped");
                        // after a before-hook stop the instruction may still execute (and fail): only
                        // an after-hook stop pins the result
                        if !r.is_ok() && c.hooks[e.hook].after {
                            fail(&mut out, "stop|stopped-run-reported-error", format!("hook {} stopped execution but execute() answered {}", e.hook, r.short()));
                            return out;
                        }
                    }
                    _ => {}
                }
            }
            // a stop or failure must be the last event of the run
            for (i, e) in ev.iter().enumerate() {
                if matches!(e.outcome, Outcome::Fail | Outcome::StopFail) && i + 1 != ev.len() {
                    fail(&mut out, "fail|events-after-failing-hook", format!("hook {} failed (event {}) but {} more hook events followed", e.hook, i, ev.len() - i - 1));
                    return out;
                }
                if matches!(e.outcome, Outcome::StopHandled | Outcome::StopUnhandled) {
                    // later events may only belong to the same instruction (same executed count ±1 and same next-ip)
                    for l in &ev[i + 1..] {
                        // (the strict chain semantics are checked in step mode; here: no hook of a *later* instruction)
                        let same_instruction = l.executed <= e.executed + 1 && (l.executed == e.executed || c.hooks[l.hook].after);
                        if !same_instruction {
                            fail(&mut out, "stop|later-instruction-ran-hooks", format!("hook {} stopped at rip {:#x} (executed {}) but hook {} ran at rip {:#x} (executed {})", e.hook, e.rip, e.executed, l.hook, l.rip, l.executed));
                            return out;
                        }
                    }
                    if let Api::Ok(_) = r {
                        let ex = h.verif_executed();
                        if ex > e.executed + 1 {
                            fail(&mut out, "stop|later-instruction-executed", format!("hook {} stopped when {} instructions had executed, the run ended with {}", e.hook, e.executed, ex));
                            return out;
                        }
                    }
                }
            }
            let reg = h.hook_before_mnemonic_native(SupportedMnemonic::Nop, prog::hook_fn(62));
            if reg.is_err() {
                fail(&mut out, "register|refused-after-run", format!("registering a hook after the run ({}) was refused: {}", r.short(), reg.err().map(|e| e.to_string()).unwrap_or_default().lines().next().unwrap_or("")));
                return out;
            }
            classes.push("mode:execute");
            for cl in classes {
                out = out.class(cl);
            }
            return out;
        }

        // ---- step-wise protocol check against the hook-free twin
        classes.push("mode:step");
        let code_end = BASE + img.len() as u64;
        let mut steps = 0;
        loop {
            steps += 1;
            if steps > 60 {
                break;
            }
            let rip = h.reg_read_64(SR::RIP).unwrap();
            if rip < BASE || rip >= code_end {
                break;
            }
            let off = (rip - BASE) as usize;
            let ins = Decoder::with_ip(64, &img[off..(off + 15).min(img.len())], rip, DecoderOptions::NONE).decode();
            let mi = MNEMS.iter().position(|m| *m == ins.mnemonic());
            let pre = snap(&h);
            let ev0 = prog::events_len();
            let r = step(&mut h);
            if let Api::Panic(p) = &r {
                fail(&mut out, &format!("step|{}", p.signature()), format!("step at {:#x} ({}) crashed: {} at {}", rip, ins, p.message, p.location));
                return out;
            }
            let evs: Vec<Event> = prog::EVENTS.with(|e| e.borrow()[ev0..].to_vec());
            let is_before = |e: &Event| !c.hooks[e.hook].after;
            // foreign mnemonics never fire; each hook at most once
            for (i, e) in evs.iter().enumerate() {
                if Some(c.hooks[e.hook].mnemonic) != mi {
                    fail(&mut out, "foreign|hook-of-other-mnemonic-invoked", format!("{} at {:#x}: hook {} is registered for {:?} but was invoked", ins, rip, e.hook, MNEMS[c.hooks[e.hook].mnemonic]));
                    return out;
                }
                if evs[..i].iter().any(|x| x.hook == e.hook) {
                    fail(&mut out, "once|hook-invoked-twice", format!("{} at {:#x}: hook {} was invoked twice for one instruction", ins, rip, e.hook));
                    return out;
                }
                if e.mnemonic != SupportedMnemonic::try_from(ins.mnemonic()).map(|m| m as u32).unwrap_or(0) {
                    fail(&mut out, "args|wrong-mnemonic-passed", format!("{} at {:#x}: hook {} was given mnemonic id {}", ins, rip, e.hook, e.mnemonic));
                    return out;
                }
                if let Some(refused) = e.inner_registration_refused {
                    classes.push("registration-from-inside");
                    if !refused {
                        fail(&mut out, "register|accepted-from-inside-a-hook", format!("hook {} registered another hook while running and was not refused", e.hook));
                        return out;
                    }
                }
            }
            // phases: before-events precede after-events
            let nb = evs.iter().take_while(|e| is_before(e)).count();
            if evs[nb..].iter().any(|e| is_before(e)) {
                fail(&mut out, "order|before-hook-after-an-after-hook", format!("{} at {:#x}: event order {:?}", ins, rip, evs.iter().map(|e| (e.hook, c.hooks[e.hook].after)).collect::<Vec<_>>()));
                return out;
            }
            let (bev, aev) = evs.split_at(nb);
            let registered_b: Vec<usize> = (0..c.hooks.len()).filter(|i| Some(c.hooks[*i].mnemonic) == mi && !c.hooks[*i].after).collect();
            let registered_a: Vec<usize> = (0..c.hooks.len()).filter(|i| Some(c.hooks[*i].mnemonic) == mi && c.hooks[*i].after).collect();
            // before phase
            let mut expect = pre.gpr;
            let mut stopped = false;
            let mut failed = false;
            let mut rip_override: Option<u64> = None;
            for (i, e) in bev.iter().enumerate() {
                if e.rip != rip_override.unwrap_or(ins.next_ip()) || e.executed != pre.executed || e.gpr != expect || e.rflags != pre.rflags {
                    fail(&mut out, "before|hook-does-not-see-the-pre-state", format!("{} at {:#x}: before-hook {} saw rip {:#x} (next ip {:#x}), executed {} (pre {}), registers {} the pre-state", ins, rip, e.hook, e.rip, ins.next_ip(), e.executed, pre.executed, if e.gpr == expect { "equal to" } else { "different from" }));
                    return out;
                }
                if let Some((r, v)) = c.hooks[e.hook].modify {
                    if r == 16 {
                        rip_override = Some(v);
                    } else {
                        expect[r as usize % 16] = v;
                        twin.reg_write_64(GPR[r as usize % 16], v).unwrap();
                    }
                }
                let last = i + 1 == bev.len();
                match e.outcome {
                    Outcome::Unhandled => {}
                    o => {
                        if !last {
                            fail(&mut out, "shortcircuit|hooks-ran-after-handled-stop-or-error", format!("{} at {:#x}: before-hook {} answered {:?} but further before-hooks ran", ins, rip, e.hook, o));
                            return out;
                        }
                        classes.push("short-circuit");
                        stopped |= matches!(o, Outcome::StopHandled | Outcome::StopUnhandled);
                        failed |= matches!(o, Outcome::Fail | Outcome::StopFail);
                    }
                }
            }
            let b_short = bev.last().map(|e| e.outcome != Outcome::Unhandled).unwrap_or(false);
            if !b_short && bev.len() != registered_b.len() && !(r.is_err() && bev.is_empty() && registered_b.is_empty()) {
                // all before-hooks must have run (unless the step failed before reaching them, e.g. fetch error)
                if !(r.is_err() && evs.is_empty() && !matches!(r, Api::Ok(_)) && pre.rip == h.reg_read_64(SR::RIP).unwrap_or(0)) {
                    fail(&mut out, "complete|before-hooks-missing", format!("{} at {:#x}: {} before-hooks registered, {} invoked, none handled/stopped/failed", ins, rip, registered_b.len(), bev.len()));
                    return out;
                }
            }
            if failed {
                classes.push("hook-fails");
                if !r.is_err() {
                    fail(&mut out, "fail|failing-hook-did-not-fail-the-step", format!("{} at {:#x}: a before-hook failed but step answered {}", ins, rip, r.short()));
                    return out;
                }
                if !aev.is_empty() {
                    fail(&mut out, "fail|after-hooks-ran-after-a-failed-before-hook", format!("{} at {:#x}", ins, rip));
                    return out;
                }
                break;
            }
            if stopped {
                classes.push("stop");
                // the statement leaves open whether the instruction (and its after-hooks) still run
                let later_failure = aev.iter().any(|e| matches!(e.outcome, Outcome::Fail | Outcome::StopFail)) || (aev.is_empty() && r.is_err());
                if !matches!(r, Api::Ok(false)) && !later_failure {
                    fail(&mut out, "stop|step-did-not-report-finished", format!("{} at {:#x}: a before-hook stopped execution but step answered {}", ins, rip, r.short()));
                    return out;
                }
                let r2 = step(&mut h);
                if !r2.is_err() {
                    fail(&mut out, "stop|further-step-did-not-fail", format!("after a stop a further step answered {}", r2.short()));
                    return out;
                }
                break;
            }
            // the instruction itself, on the twin
            let tr = step(&mut twin);
            match (&r, &tr) {
                (Api::Err(_), Api::Err(_)) if aev.is_empty() => break, // the instruction failed on both
                (Api::Err(_), Api::Ok(_)) if aev.iter().any(|e| matches!(e.outcome, Outcome::Fail | Outcome::StopFail)) => {}
                (Api::Ok(_), Api::Ok(_)) => {}
                (Api::Err(e), Api::Ok(_)) if ins.mnemonic() == Mnemonic::Syscall && registered_b.is_empty() && registered_a.is_empty() => {
                    let _ = e;
                    break; // syscall without any hook: by-design error (twin has no hooks either -> also Err; unreachable)
                }
                _ => {
                    if ins.mnemonic() == Mnemonic::Syscall {
                        // the twin has no syscall hook and fails by design; take the hooked machine's word
                        if r.is_err() && !aev.iter().any(|e| matches!(e.outcome, Outcome::Fail | Outcome::StopFail)) {
                            fail(&mut out, "step|syscall-with-hooks-failed", format!("syscall at {:#x} has hooks but step answered {}", rip, r.short()));
                            return out;
                        }
                        // resynchronise the twin: skip the instruction
                        twin.reg_write_64(SR::RIP, ins.next_ip()).unwrap();
                    } else {
                        fail(&mut out, "step|hooked-vs-hook-free-verdict", format!("{} at {:#x}: with hooks {}, without hooks {}", ins, rip, r.short(), tr.short()));
                        return out;
                    }
                }
            }
            if let Some(v) = rip_override {
                if ins.flow_control() == iced_x86::FlowControl::Next {
                    // the instruction does not load RIP itself: the hook's redirection persists
                    twin.reg_write_64(SR::RIP, v).unwrap();
                    classes.push("before-hook-redirects-rip");
                } else if matches!(ins.mnemonic(), Mnemonic::Call) {
                    break; // CALL pushes the (redirected) RIP as its return address: out of this model's scope
                } else if twin.reg_read_64(SR::RIP).unwrap() == ins.next_ip() {
                    // a conditional branch that is not taken leaves RIP alone: the redirection persists
                    twin.reg_write_64(SR::RIP, v).unwrap();
                }
                // (a taken branch, an indirect jump or a return loads RIP itself and overrides the hook's value)
            }
            let tpost = snap(&twin);
            // after phase
            let mut expect = tpost.gpr;
            let syscall_resync = ins.mnemonic() == Mnemonic::Syscall;
            let mut a_stopped = false;
            let mut a_failed = false;
            let mut after_rip: Option<u64> = None;
            // the instruction itself may have ended the run (code end / top-level RET): then a stop()
            // from an after-hook changes nothing and need not end the chain
            let already_finished = matches!(tr, Api::Ok(false));
            for (i, e) in aev.iter().enumerate() {
                let count_ok = e.executed == pre.executed + 1;
                if !count_ok || e.gpr != expect || (!syscall_resync && e.rip != after_rip.unwrap_or(tpost.rip)) || (!syscall_resync && e.rflags != tpost.rflags) {
                    fail(&mut out, "after|hook-does-not-see-the-post-state", format!("{} at {:#x}: after-hook {} saw executed {} (pre {}), rip {:#x} (post {:#x}), registers {} the post-state", ins, rip, e.hook, e.executed, pre.executed, e.rip, tpost.rip, if e.gpr == expect { "equal to" } else { "different from" }));
                    return out;
                }
                if let Some((r, v)) = c.hooks[e.hook].modify {
                    if r == 16 {
                        twin.reg_write_64(SR::RIP, v).unwrap();
                        after_rip = Some(v);
                    } else {
                        expect[r as usize % 16] = v;
                        twin.reg_write_64(GPR[r as usize % 16], v).unwrap();
                    }
                }
                let last = i + 1 == aev.len();
                match e.outcome {
                    Outcome::Unhandled => {}
                    o => {
                        if !last && !(already_finished && o == Outcome::StopUnhandled) {
                            fail(&mut out, "shortcircuit|hooks-ran-after-handled-stop-or-error", format!("{} at {:#x}: after-hook {} answered {:?} but further after-hooks ran", ins, rip, e.hook, o));
                            return out;
                        }
                        classes.push("short-circuit");
                        a_stopped |= matches!(o, Outcome::StopHandled | Outcome::StopUnhandled);
                        a_failed |= matches!(o, Outcome::Fail | Outcome::StopFail);
                    }
                }
            }
            let a_short = aev.last().map(|e| e.outcome != Outcome::Unhandled && !(already_finished && e.outcome == Outcome::StopUnhandled)).unwrap_or(false);
            if matches!(r, Api::Ok(_)) || a_failed {
                if !a_short && aev.len() != registered_a.len() {
                    fail(&mut out, "complete|after-hooks-missing", format!("{} at {:#x}: {} after-hooks registered, {} invoked, none handled/stopped/failed", ins, rip, registered_a.len(), aev.len()));
                    return out;
                }
            }
            if a_failed {
                classes.push("hook-fails");
                if !r.is_err() {
                    fail(&mut out, "fail|failing-hook-did-not-fail-the-step", format!("{} at {:#x}: an after-hook failed but step answered {}", ins, rip, r.short()));
                    return out;
                }
                break;
            }
            if let Api::Err(e) = &r {
                fail(&mut out, "step|failed-without-a-failing-hook", format!("{} at {:#x}: step answered Err({}) although the hook-free twin executes it", ins, rip, e.lines().next().unwrap_or("")));
                return out;
            }
            // modifications persist: hooked machine == twin (+ modifications)
            let hpost = snap(&h);
            let tnow = snap(&twin);
            if hpost.gpr != tnow.gpr || (!syscall_resync && (hpost.rip != tnow.rip || hpost.rflags != tnow.rflags)) {
                fail(&mut out, "persist|state-after-hooks-differs-from-twin", format!("{} at {:#x}: {}", ins, rip, hpost.diff(&tnow)));
                return out;
            }
            if a_stopped {
                classes.push("stop");
                if !matches!(r, Api::Ok(false)) {
                    fail(&mut out, "stop|step-did-not-report-finished", format!("{} at {:#x}: an after-hook stopped execution but step answered {}", ins, rip, r.short()));
                    return out;
                }
                let before2 = snap(&h);
                let r2 = step(&mut h);
                if !r2.is_err() || snap(&h) != before2 {
                    fail(&mut out, "stop|further-step-did-not-fail-cleanly", format!("after a stop a further step answered {}", r2.short()));
                    return out;
                }
                break;
            }
            if matches!(r, Api::Ok(false)) {
                break;
            }
        }
        prog::take_events();
        // registration whenever no hook is executing — including after a failed run — is accepted
        let reg = h.hook_after_mnemonic_native(SupportedMnemonic::Nop, prog::hook_fn(62));
        if let Err(e) = reg {
            fail(&mut out, "register|refused-after-run", format!("registering a hook after the run was refused: {}", e.to_string().lines().next().unwrap_or("")));
            return out;
        }
        // … and it takes effect: a built-in handler registered now (possibly after an attempt from inside a
        // hook was refused) serves the next syscall. Only where the machine can still step and no scripted
        // hook sits on SYSCALL in front of it.
        let hs = h.handle_syscalls(vec![ax_x86::helpers::syscalls::Syscall::Brk]);
        if let Err(e) = hs {
            fail(&mut out, "register|handle-syscalls-refused-after-run", format!("handle_syscalls([Brk]) after the run was refused: {}", e.to_string().lines().next().unwrap_or("")));
            return out;
        }
        let syscall_hooked = c.hooks.iter().any(|hk| MNEMS[hk.mnemonic % MNEMS.len()] == iced_x86::Mnemonic::Syscall);
        if !h.verif_finished() && !syscall_hooked && h.mem_init_area(0x9000_0000, vec![0x0f, 0x05, 0x90, 0x90]).is_ok() && h.mem_prot(0x9000_0000, 5).is_ok() {
            h.reg_write_64(SR::RIP, 0x9000_0000).unwrap();
            h.reg_write_64(SR::RAX, 12).unwrap();
            h.reg_write_64(SR::RDI, 0).unwrap();
            let r = step(&mut h);
            prog::take_events();
            classes.push("late-built-in-handler-probed");
            let rax = h.reg_read_64(SR::RAX).unwrap();
            if !r.is_ok() || rax == 12 {
                fail(&mut out, "register|late-handler-not-effective", format!("handle_syscalls([Brk]) was accepted after the run, but a following brk(0) answered {} with rax={:#x}", r.short(), rax));
                return out;
            }
        }
        classes.sort();
        classes.dedup();
        for cl in classes {
            out = out.class(cl);
        }
        out
    }

    fn rule(&self) -> String {
        "cases: forward-only slot-grid programs of 1–16 instructions (incl. SYSCALL) with 1–8 scripted hooks concentrated on ≤3 mnemonics (before/after, per-invocation outcome from {unhandled, handled, stop, stop+handled, error, stop-then-error}, optional modification of a register or of RIP (redirecting execution to another slot), optional registration from inside a hook) plus hooks of mnemonics that do not occur; step-wise protocol model against a hook-free twin stepped in lock-step and given the same modifications (pre-state/post-state seen by hooks, at most once, completeness, strict short-circuit, failing hook ⇒ Err, stop ⇒ finished and a further step fails, foreign hooks never fire, inner registration — a plain hook and a built-in syscall handler — refused, registration after the run accepted and effective: a brk handler registered then serves a following syscall); 1/3 of the cases use execute() for the whole-run clauses; non-trivial = ≥2 hooks on one mnemonic and ≥1 non-'unhandled' outcome; distinct by hash(case)".into()
    }
    fn required_classes(&self, _tier: Tier) -> Vec<String> {
        ["mode:step", "mode:execute", "short-circuit", "stop", "hook-fails", "registration-from-inside", "run:stopped", "run:hook-failed", "before-hook-redirects-rip", "late-built-in-handler-probed"].iter().map(|s| s.to_string()).collect()
    }
    fn assumptions(&self) -> Vec<String> {
        vec![
            "hook order within a phase is undefined (docs): the model follows the observed order and checks its consistency".into(),
            "whether the current instruction and its after-hooks still run after a before-hook stop is left open by the statement".into(),
            "a handled/stop/error outcome must end its phase (the built-in pipe handler relies on this short-circuit)".into(),
        ]
    }
}
