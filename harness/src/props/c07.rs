//! C07: the register API behaves like the x86-64 register file.
use super::mu::*;
use crate::sup::{CaseOut, Property, Tier, Verdict};
use crate::tape::{Shape, Tape, TapeVal};
use ax_x86::axecutor::Axecutor;
use ax_x86::state::registers::SupportedRegister as SR;
use serde::{Deserialize, Serialize};

/// All 86 variants of the public register enum, in declaration order.
pub const ALL: [SR; 86] = [
    SR::RIP, SR::RAX, SR::RBX, SR::RCX, SR::RDX, SR::RSI, SR::RDI, SR::RSP, SR::RBP, SR::R8, SR::R9, SR::R10, SR::R11, SR::R12, SR::R13, SR::R14, SR::R15,
    SR::EIP, SR::EAX, SR::EBX, SR::ECX, SR::EDX, SR::ESI, SR::EDI, SR::ESP, SR::EBP, SR::R8D, SR::R9D, SR::R10D, SR::R11D, SR::R12D, SR::R13D, SR::R14D, SR::R15D,
    SR::AX, SR::BX, SR::CX, SR::DX, SR::SI, SR::DI, SR::SP, SR::BP, SR::R8W, SR::R9W, SR::R10W, SR::R11W, SR::R12W, SR::R13W, SR::R14W, SR::R15W,
    SR::AH, SR::AL, SR::BH, SR::BL, SR::CH, SR::CL, SR::DH, SR::DL, SR::SIL, SR::DIL, SR::SPL, SR::BPL, SR::R8L, SR::R9L, SR::R10L, SR::R11L, SR::R12L, SR::R13L, SR::R14L, SR::R15L,
    SR::XMM0, SR::XMM1, SR::XMM2, SR::XMM3, SR::XMM4, SR::XMM5, SR::XMM6, SR::XMM7, SR::XMM8, SR::XMM9, SR::XMM10, SR::XMM11, SR::XMM12, SR::XMM13, SR::XMM14, SR::XMM15,
];

/// The harness's own description of a view: (index into the model file in GPR order, width, high byte?)
/// GPR order of `mu::GPR` / `mach::SR64`: rax rcx rdx rbx rsp rbp rsi rdi r8..r15.
#[derive(Clone, Copy, Debug, PartialEq)]
pub enum View {
    Gpr { idx: usize, bits: u32, high: bool },
    Rip,
    Other, // EIP, XMM: not a view of the general-purpose file
}

pub fn view_of(i: usize) -> View {
    // declaration order within each width group: (rip) rax rbx rcx rdx rsi rdi rsp rbp r8..r15
    const ORDER: [usize; 16] = [0, 3, 1, 2, 6, 7, 4, 5, 8, 9, 10, 11, 12, 13, 14, 15];
    match i {
        0 => View::Rip,
        1..=16 => View::Gpr { idx: ORDER[i - 1], bits: 64, high: false },
        17 => View::Other,
        18..=33 => View::Gpr { idx: ORDER[i - 18], bits: 32, high: false },
        34..=49 => View::Gpr { idx: ORDER[i - 34], bits: 16, high: false },
        50..=57 => {
            // AH AL BH BL CH CL DH DL
            let k = i - 50;
            let idx = [0usize, 3, 1, 2][k / 2];
            View::Gpr { idx, bits: 8, high: k % 2 == 0 }
        }
        58..=69 => {
            // SIL DIL SPL BPL R8L..R15L
            let idx = [6usize, 7, 4, 5, 8, 9, 10, 11, 12, 13, 14, 15][i - 58];
            View::Gpr { idx, bits: 8, high: false }
        }
        _ => View::Other,
    }
}

#[derive(Clone, Debug, Serialize, Deserialize)]
pub struct Op {
    pub write: bool,
    pub bits: u32,
    pub reg: usize,
    pub value: u64,
}

#[derive(Clone, Debug, Serialize, Deserialize)]
pub struct Case {
    pub init: [u64; 16],
    pub ops: Vec<Op>,
}

pub struct C07;

const BOUNDARY: [u64; 14] = [0, 1, 0x7f, 0x80, 0xff, 0x100, 0x7fff, 0x8000, 0xffff, 0x1_0000, 0x7fff_ffff, 0xffff_ffff, 0x1_0000_0000, u64::MAX];
const PRIOR: [u64; 12] = [0, u64::MAX, 0x0123_4567_89ab_cdef, 0xfedc_ba98_7654_3210, 0xffff_ffff_0000_0000, 0x0000_0000_ffff_ffff, 0xffff_ffff_ffff_0000, 0xffff_ffff_ffff_00ff, 0xffff_ffff_ffff_ff00, 0x8000_0000_0000_0000, 0x5555_5555_5555_5555, 0xaaaa_aaaa_aaaa_aaaa];

fn mask(bits: u32) -> u64 {
    if bits == 64 {
        u64::MAX
    } else {
        (1u64 << bits) - 1
    }
}

impl Property for C07 {
    type Case = Case;
    fn id(&self) -> &'static str {
        "C07"
    }
    fn shape(&self) -> Shape {
        Shape::hist(1, 60, 9)
    }
    fn cases(&self, tier: Tier) -> u64 {
        match tier {
            Tier::Quick => 2_500_000,
            Tier::Thorough => 30_000_000,
        }
    }
    fn decode(&mut self, tape: &TapeVal) -> Case {
        let mut init = [0u64; 16];
        let mut ops = vec![];
        for (k, row) in tape.iter().enumerate() {
            let mut t = Tape::new(row);
            if k == 0 {
                let s = t.raw();
                for (i, v) in init.iter_mut().enumerate() {
                    *v = crate::util::mix2(s, i as u64);
                }
            }
            let mut t = Tape::new(&row[1..]);
            let write = t.below(3) != 0;
            let bits = t.pick(&[8u32, 16, 32, 64]);
            // mostly a register of the matching width, sometimes any of the 85
            let reg = if t.below(8) == 0 {
                t.below(86) as usize
            } else {
                let cands: Vec<usize> = (0..86).filter(|i| matches!(view_of(*i), View::Gpr { bits: b, .. } if b == bits)).collect();
                cands[t.below(cands.len() as u64) as usize]
            };
            let value = match t.below(8) {
                0 => t.val64(), // may not fit
                1 => t.pick(&BOUNDARY),
                _ => t.val64() & mask(bits),
            };
            ops.push(Op { write, bits, reg, value });
        }
        Case { init, ops }
    }

    fn fixed_cases(&mut self, _tier: Tier) -> Vec<Case> {
        // exhaustive: every GPR view × prior contents × boundary values (write then read every view of that register)
        let mut v = vec![];
        for reg in 0..86 {
            if let View::Gpr { idx, bits, .. } = view_of(reg) {
                for p in PRIOR {
                    for b in BOUNDARY {
                        let mut init = [0x1111_1111_1111_1111u64; 16];
                        for (i, x) in init.iter_mut().enumerate() {
                            *x = x.wrapping_mul(i as u64 + 1);
                        }
                        init[idx] = p;
                        v.push(Case { init, ops: vec![Op { write: true, bits, reg, value: b }, Op { write: false, bits, reg, value: 0 }] });
                    }
                }
            }
        }
        v
    }

    fn exec(&mut self, c: &Case) -> CaseOut {
        let mut ax = match api(|| Axecutor::new(&[0x90, 0x90], 0x1000, 0x1000)) {
            Api::Ok(a) => a,
            other => return CaseOut::fail("HARNESS-FAULT|C07-new".into(), other.short()),
        };
        let mut model = c.init;
        let mut model_rip = 0x1000u64;
        for i in 0..16 {
            ax.reg_write_64(GPR[i], c.init[i]).unwrap();
        }
        let mut nontrivial = false;
        let mut last_sub_write: Option<(usize, u32, bool)> = None;
        let mut out = CaseOut::pass(false, hash_json(c));
        let mut classes: Vec<&'static str> = vec![];
        for (n, op) in c.ops.iter().enumerate() {
            let sr = ALL[op.reg];
            let view = view_of(op.reg);
            let valid = match view {
                View::Gpr { bits, .. } => bits == op.bits && (!op.write || op.value <= mask(bits)),
                View::Rip => op.bits == 64,
                View::Other => false,
            };
            let res: Api<u64> = if op.write {
                api(|| {
                    match op.bits {
                        8 => ax.reg_write_8(sr, op.value),
                        16 => ax.reg_write_16(sr, op.value),
                        32 => ax.reg_write_32(sr, op.value),
                        _ => ax.reg_write_64(sr, op.value),
                    }
                    .map(|_| 0)
                })
            } else {
                api(|| match op.bits {
                    8 => ax.reg_read_8(sr),
                    16 => ax.reg_read_16(sr),
                    32 => ax.reg_read_32(sr),
                    _ => ax.reg_read_64(sr),
                })
            };
            let what = format!("op #{} {}_{}({:?}{})", n, if op.write { "reg_write" } else { "reg_read" }, op.bits, sr, if op.write { format!(", {:#x}", op.value) } else { String::new() });
            let kind = if op.write { "write" } else { "read" };
            if let Api::Panic(p) = &res {
                out.verdict = Verdict::Fail { sig: format!("C07|{}|{}", kind, p.signature()), msg: format!("{} crashed: {}", what, res.short()) };
                out.nontrivial = true;
                return out;
            }
            if valid {
                // apply to the model
                let expect_read = match view {
                    View::Gpr { idx, bits, high } => {
                        if op.write {
                            model[idx] = match (bits, high) {
                                (8, true) => (model[idx] & !0xff00) | (op.value << 8),
                                (8, false) => (model[idx] & !0xff) | op.value,
                                (16, _) => (model[idx] & !0xffff) | op.value,
                                (32, _) => op.value,
                                _ => op.value,
                            };
                            if bits < 64 {
                                last_sub_write = Some((idx, bits, high));
                            }
                            0
                        } else {
                            if let Some((i2, b2, h2)) = last_sub_write {
                                if i2 == idx && (b2 != bits || h2 != high) {
                                    nontrivial = true;
                                    classes.push("subwrite-then-other-view-read");
                                }
                            }
                            match (bits, high) {
                                (8, true) => (model[idx] >> 8) & 0xff,
                                (b, _) => model[idx] & mask(b),
                            }
                        }
                    }
                    View::Rip => {
                        if op.write {
                            model_rip = op.value;
                            0
                        } else {
                            model_rip
                        }
                    }
                    View::Other => unreachable!(),
                };
                match &res {
                    Api::Ok(v) => {
                        if !op.write && *v != expect_read {
                            out.verdict = Verdict::Fail { sig: format!("C07|read{}|wrong-value", op.bits), msg: format!("{} returned {:#x}, the register file holds {:#x}", what, v, expect_read) };
                            out.nontrivial = true;
                            return out;
                        }
                    }
                    _ => {
                        out.verdict = Verdict::Fail { sig: format!("C07|{}{}|valid-call-rejected", kind, op.bits), msg: format!("{} is a valid call but answered {}", what, res.short()) };
                        out.nontrivial = true;
                        return out;
                    }
                }
                classes.push("valid");
            } else {
                classes.push("invalid");
                if res.is_ok() {
                    out.verdict = Verdict::Fail {
                        sig: format!("C07|{}{}|invalid-call-accepted", kind, op.bits),
                        msg: format!("{} must be rejected (value does not fit the view, or the register is not a {}-bit general-purpose view) but answered {}", what, op.bits, res.short()),
                    };
                    out.nontrivial = true;
                    return out;
                }
                nontrivial = true;
            }
            // after every operation: every register equals the model (aliasing, nothing else touched, rejection without effect)
            for i in 0..16 {
                let got = ax.reg_read_64(GPR[i]).unwrap();
                if got != model[i] {
                    out.verdict = Verdict::Fail {
                        sig: format!("C07|{}{}|{}", kind, op.bits, if valid { if matches!(view, View::Gpr{idx,..} if idx == i) { "aliasing" } else { "other-register-touched" } } else { "rejected-call-modified-state" }),
                        msg: format!("after {}: {} holds {:#x}, the register file model says {:#x}", what, crate::mach::GPR_NAMES[i], got, model[i]),
                    };
                    out.nontrivial = true;
                    return out;
                }
            }
            let rip = ax.reg_read_64(SR::RIP).unwrap();
            if rip != model_rip {
                out.verdict = Verdict::Fail { sig: format!("C07|{}{}|rip-touched", kind, op.bits), msg: format!("after {}: rip {:#x}, expected {:#x}", what, rip, model_rip) };
                return out;
            }
        }
        out.nontrivial = nontrivial || c.ops.len() == 2;
        classes.sort();
        classes.dedup();
        for cl in classes {
            out = out.class(cl);
        }
        out
    }

    fn rule(&self) -> String {
        "fixed: every one of the 68 GPR views × 12 prior contents × 14 boundary values, write then read (exhaustive sub-space); random: histories of 1–60 reg_read/reg_write_{8,16,32,64} calls over all 86 register enum variants (1/8 of the calls with a register of another width / RIP / EIP / XMM, 1/8 with a value that may not fit), all 16 registers compared with a [u64;16] model after every call; non-trivial = a sub-register write followed by a read through a different view, or a rejected call; distinct by hash of the history".into()
    }
    fn required_classes(&self, _tier: Tier) -> Vec<String> {
        vec!["valid".into(), "invalid".into(), "subwrite-then-other-view-read".into(), "tier:fixed".into()]
    }
    fn assumptions(&self) -> Vec<String> {
        vec!["reading/writing RIP through the 64-bit accessors is accepted (README); EIP and XMM registers are not views of the general-purpose file".into(), "--cfg ax_verif makes fatal_error! a rejection (Err) as on wasm32".into()]
    }
}
