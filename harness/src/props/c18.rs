//! C18: trace and call stack describe the executed control flow; rendering is total.
use super::mu::*;
use crate::prog::{self, PI};
use crate::sup::{CaseOut, Property, Tier, Verdict};
use crate::tape::{Shape, Tape, TapeVal};
use ax_x86::axecutor::Axecutor;
use ax_x86::state::registers::SupportedRegister as SR;
use iced_x86::{Decoder, DecoderOptions, Mnemonic};
use serde::{Deserialize, Serialize};

const BASE: u64 = 0x40_0000;

#[derive(Clone, Debug, Serialize, Deserialize)]
pub struct Case {
    pub prog: Vec<PI>,
    pub seed: u64,
    /// number of pre-seeded return slots below the initial RSP (unmatched RETs land in code)
    pub preseed: Vec<usize>,
    pub limit: u64,
    pub flags: u64,
    /// deep-recursion template: `call self` executed this many times (0 = normal case)
    #[serde(default)]
    pub deep: u64,
    /// a stack of a few slots only: calls run off its bottom, so runs end in a *refused call* (which is not
    /// a call that happened) as well as in refused returns
    #[serde(default)]
    pub small_stack: bool,
}

pub struct C18;

type TE = (u64, u64, u8, i16, u64);

fn model_push(trace: &mut Vec<TE>, ip: u64, target: u64, variant: u8) {
    let mut lvl: i16 = 0;
    if let Some(last) = trace.last_mut() {
        lvl = last.3;
        match last.2 {
            0 => lvl = lvl.saturating_add(1),
            1 => lvl = lvl.saturating_sub(1),
            _ => {
                if variant == 2 && last.0 == ip && last.1 == target && last.3 == lvl {
                    last.4 += 1;
                    return;
                }
            }
        }
    }
    trace.push((ip, target, variant, lvl, 1));
}

impl Property for C18 {
    type Case = Case;
    fn id(&self) -> &'static str {
        "C18"
    }
    fn shape(&self) -> Shape {
        Shape::hist(3, 29, 8)
    }
    fn cases(&self, tier: Tier) -> u64 {
        match tier {
            Tier::Quick => 60_000,
            Tier::Thorough => 1000000,
        }
    }
    fn watchdog_s(&self) -> u64 {
        30
    }
    fn fixed_cases(&mut self, tier: Tier) -> Vec<Case> {
        let mut v = vec![];
        // returns that outnumber calls, then an error: the rendering path of step()'s error decoration
        v.push(Case { prog: vec![PI::Ret, PI::Ret, PI::Ret, PI::Ret], seed: 1, preseed: vec![1, 2, 3], limit: 50, flags: 0, deep: 0, small_stack: false });
        v.push(Case { prog: vec![PI::Ret, PI::Ret, PI::Jmp { to: 9, short: false }], seed: 2, preseed: vec![1, 2], limit: 50, flags: 0, deep: 0, small_stack: false });
        // moderately deep recursion with rendering, and the i16 nesting-level boundary without rendering
        v.push(Case { prog: vec![PI::Call { to: 0 }], seed: 3, preseed: vec![], limit: 600, flags: 0, deep: 600, small_stack: false });
        v.push(Case { prog: vec![PI::Call { to: 0 }], seed: 4, preseed: vec![], limit: 33_500, flags: 0, deep: 33_500, small_stack: false });
        let _ = tier;
        v
    }
    fn decode(&mut self, tape: &TapeVal) -> Case {
        let mut t = Tape::new(&tape[0]);
        let n = tape.len() - 1;
        let seed = t.raw();
        let np = t.weighted(&[40, 20, 15, 10, 8, 7]);
        let preseed = (0..np).map(|_| t.below(n as u64) as usize).collect();
        let limit = 20 + t.below(280);
        let flags = t.raw() & 0x8d5;
        let mut o = prog::ProgOpts::branchy();
        o.w_extra = [8, 10, 5, 0];
        let mut p = vec![];
        for (i, row) in tape.iter().skip(1).enumerate() {
            let mut t = Tape::new(row);
            p.push(prog::gen_slot(&mut t, i, n, &o));
        }
        let small_stack = t.below(6) == 0;
        Case { prog: p, seed, preseed, limit, flags, deep: 0, small_stack }
    }

    fn exec(&mut self, c: &Case) -> CaseOut {
        let mut out = CaseOut::pass(false, hash_json(c));
        let fail = |out: &mut CaseOut, sig: &str, msg: String| {
            out.verdict = Verdict::Fail { sig: format!("C18|{}", sig), msg };
            out.nontrivial = true;
        };
        let img = prog::assemble(&c.prog, BASE);
        let code_end = BASE + img.len() as u64;
        let mut ax = match api(|| Axecutor::new(&img, BASE, BASE)) {
            Api::Ok(a) => a,
            other => return CaseOut::fail("HARNESS-FAULT|C18-new".into(), other.short()),
        };
        init_regs(&mut ax, c.seed);
        // most registers hold slot addresses, so that jmp/call through a register (without a reload) goes
        // somewhere valid and the same indirect jump can run twice in a row with different targets
        for (k, r) in prog::REGS.iter().enumerate() {
            let v = crate::util::mix2(c.seed, 500 + k as u64);
            if v % 10 < 7 && !c.prog.is_empty() {
                let sr: ax_x86::state::registers::SupportedRegister = (*r).into();
                ax.reg_write_64(sr, prog::slot_addr(BASE, (v >> 8) as usize % c.prog.len())).unwrap();
            }
        }
        let stack_len = if c.deep > 0 { 8 * c.deep + 0x1000 } else if c.small_stack { 0x30 + 8 * c.preseed.len() as u64 } else { 0x1000 };
        if let Err(e) = ax.init_stack(stack_len) {
            return CaseOut::fail("HARNESS-FAULT|C18-stack".into(), e.to_string());
        }
        // pre-seed return addresses: RSP moves down, the words above it hold slot addresses
        let rsp0 = ax.reg_read_64(SR::RSP).unwrap();
        let k = c.preseed.len() as u64;
        for (j, s) in c.preseed.iter().enumerate() {
            // emulator convention (KF-C04-1): RET reads [rsp+8]; seed both conventions' cells consistently
            let cell = rsp0 - 8 * k + 8 * (j as u64 + 1);
            let _ = ax.mem_write_64(cell, prog::slot_addr(BASE, *s));
        }
        ax.reg_write_64(SR::RSP, rsp0 - 8 * k).unwrap();
        ax.verif_set_rflags(c.flags);
        ax.set_max_instructions(c.limit);

        let mut mtrace: Vec<TE> = vec![(0, BASE, 0, 0, 1)];
        let mut mstack: Vec<u64> = vec![BASE];
        let render_every = c.deep == 0 || c.deep <= 1000;
        let (mut calls, mut rets, mut taken, mut untaken, mut repeats) = (0u64, 0u64, 0u64, 0u64, 0u64);
        let mut ended_in_error = false;
        let mut steps = 0u64;
        loop {
            let rip = ax.reg_read_64(SR::RIP).unwrap();
            let inside = rip >= BASE && rip < code_end;
            let ins = if inside {
                let off = (rip - BASE) as usize;
                Some(Decoder::with_ip(64, &img[off..(off + 15).min(img.len())], rip, DecoderOptions::NONE).decode())
            } else {
                None
            };
            let pre_flags = ax.verif_rflags();
            let pre_rcx = ax.reg_read_64(SR::RCX).unwrap();
            let r = step(&mut ax);
            steps += 1;
            let ok = match &r {
                Api::Panic(p) => {
                    fail(&mut out, &format!("step|{}", p.signature()), format!("step #{} at {:#x} crashed: {} at {}", steps, rip, p.message, p.location));
                    return out;
                }
                Api::Err(_) => false,
                Api::Ok(_) => true,
            };
            if ok {
                if let Some(i) = ins {
                    let after = ax.reg_read_64(SR::RIP).unwrap();
                    match i.mnemonic() {
                        Mnemonic::Call => {
                            model_push(&mut mtrace, rip, after, 0);
                            mstack.push(after);
                            calls += 1;
                        }
                        Mnemonic::Ret => {
                            // a top-level RET that finishes the run transfers nowhere and is not traced
                            if matches!(r, Api::Ok(true)) || after != i.next_ip() {
                                model_push(&mut mtrace, rip, after, 1);
                                mstack.pop();
                                rets += 1;
                            }
                        }
                        Mnemonic::Jmp => {
                            let before_len = mtrace.len();
                            model_push(&mut mtrace, rip, after, 2);
                            if mtrace.len() == before_len {
                                repeats += 1;
                            }
                            taken += 1;
                        }
                        Mnemonic::Jrcxz => {
                            if pre_rcx == 0 {
                                model_push(&mut mtrace, rip, after, 2);
                                taken += 1;
                            } else {
                                untaken += 1;
                            }
                        }
                        m if i.is_jcc_short_or_near() => {
                            let _ = m;
                            let cc = (i.condition_code() as usize).wrapping_sub(1) as u8;
                            if prog::cond_holds(cc, pre_flags) {
                                let before_len = mtrace.len();
                                model_push(&mut mtrace, rip, after, 2);
                                if mtrace.len() == before_len {
                                    repeats += 1;
                                }
                                taken += 1;
                            } else {
                                untaken += 1;
                            }
                        }
                        _ => {}
                    }
                }
            } else {
                ended_in_error = true;
            }
            // compare the structured views after every step (deep template: every 1000 steps and at the end)
            let check_now = c.deep == 0 || steps % 1000 == 0 || !matches!(r, Api::Ok(true));
            if check_now {
                let t = ax.verif_trace();
                if t != mtrace {
                    let idx = t.iter().zip(mtrace.iter()).position(|(a, b)| a != b).unwrap_or(t.len().min(mtrace.len()));
                    let what = if t.len() != mtrace.len() && idx >= t.len().min(mtrace.len()) {
                        if t.len() < mtrace.len() { "entry-missing" } else { "extra-entry" }
                    } else {
                        let (a, b) = (t[idx], mtrace[idx]);
                        if a.0 != b.0 || a.1 != b.1 {
                            "wrong-source-or-target"
                        } else if a.2 != b.2 {
                            "wrong-kind"
                        } else if a.3 != b.3 {
                            "wrong-nesting-level"
                        } else {
                            "wrong-repeat-count"
                        }
                    };
                    fail(
                        &mut out,
                        &format!("trace|{}", what),
                        format!("after step #{} ({} at {:#x}): trace entry {} is {:x?}, the executed control flow gives {:x?} (lengths {} / {})", steps, ins.map(|i| i.to_string()).unwrap_or_default(), rip, idx, t.get(idx), mtrace.get(idx), t.len(), mtrace.len()),
                    );
                    return out;
                }
                let cs = ax.verif_call_stack();
                if cs != mstack {
                    fail(&mut out, "callstack|differs", format!("after step #{} at {:#x}: call stack {:x?}, calls not yet returned from {:x?}", steps, rip, cs, mstack));
                    return out;
                }
            }
            if render_every || !matches!(r, Api::Ok(true)) {
                if c.deep <= 1000 {
                    let tr = api(|| ax.trace());
                    let cs = api(|| ax.call_stack());
                    let ts = crate::util::catch(|| ax.to_string());
                    for (name, bad) in [("trace", !tr.is_ok()), ("call_stack", !cs.is_ok()), ("to_string", ts.is_err())] {
                        if bad {
                            let detail = match name {
                                "trace" => tr.short(),
                                "call_stack" => cs.short(),
                                _ => ts.as_ref().err().map(|p| format!("PANIC({} at {})", p.message, p.location)).unwrap_or_default(),
                            };
                            fail(&mut out, &format!("render|{}", name), format!("after step #{} at {:#x} (calls {}, returns {}): {}() failed: {}", steps, rip, calls, rets, name, detail));
                            return out;
                        }
                    }
                }
            }
            if !matches!(r, Api::Ok(true)) {
                break;
            }
        }
        out.nontrivial = calls >= 1 && taken >= 1 && untaken >= 1;
        if rets > calls {
            out = out.class("returns>calls");
        }
        if repeats >= 2 {
            out = out.class("repeated-jump>=3x");
        }
        if c.small_stack {
            out = out.class("small-stack");
        }
        if ended_in_error {
            out = out.class("ends-in-error");
        }
        if c.deep > 32_767 {
            out = out.class("deep>i16");
            out.nontrivial = true;
        }
        if calls >= 1 && rets >= 1 {
            out = out.class("call-and-return");
        }
        out
    }

    fn rule(&self) -> String {
        "cases: slot-grid programs of 2–28 instructions weighted towards Jcc/JMP rel8|rel32, JMP/CALL through a register, CALL rel32, RET, JRCXZ and flag-setting ALU ops, with 0–5 pre-seeded return addresses (so unmatched RETs land in code), run ≤300 steps incl. runs that end in an error (1/6 on a stack of a few slots, so that calls are refused); fixed: RET chains that outnumber calls and then fail, recursion 600 deep with rendering, and 33 500 deep across the i16 level boundary; oracle: an independent tracer (own decoder, own condition table) builds the expected entries (source, target, kind, level, repeat count) and call stack, compared with the structured views after every step; trace(), call_stack() and to_string() must return after every step and after the final error (the layout of the text is not judged); non-trivial = ≥1 call, ≥1 taken and ≥1 untaken conditional branch; distinct by hash(case)".into()
    }
    fn required_classes(&self, _tier: Tier) -> Vec<String> {
        ["returns>calls", "repeated-jump>=3x", "ends-in-error", "call-and-return"].iter().map(|s| s.to_string()).collect()
    }
    fn assumptions(&self) -> Vec<String> {
        vec![
            "iced-x86's decoder labels the executed instruction (mnemonic, condition code); taken/untaken is decided by the harness's condition table on the pre-step flags".into(),
            "a top-level RET that finishes the run is not a transfer and is not expected in the trace".into(),
            "the 33 500-deep template is not rendered (the indentation alone would be gigabytes); its structured levels are compared".into(),
        ]
    }
}
