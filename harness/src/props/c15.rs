//! C15: loading a well-formed static ELF reproduces its segments, entry and symbols.
use super::mu::*;
use crate::elfb::{self, ElfDesc, PT_LOAD};
use crate::sup::{CaseOut, Property, Tier, Verdict};
use crate::tape::{Shape, Tape, TapeVal};
use ax_x86::axecutor::Axecutor;
use ax_x86::state::registers::SupportedRegister as SR;
use serde::{Deserialize, Serialize};

#[derive(Clone, Debug, Serialize, Deserialize)]
pub struct Case {
    pub desc: Option<ElfDesc>,
    /// or one of the repository's test binaries
    pub testdata: Option<String>,
}

pub struct C15;

pub const TESTDATA: [&str; 8] = ["alphabet.bin", "args.bin", "c_loop.bin", "exit_c.bin", "exit_c_no_symbols.bin", "fib_c_nostdlib.bin", "hello_world.bin", "trace.bin"];

pub fn check_loaded(d: &ElfDesc, file: &[u8], lay: &elfb::Layout, ax: &Axecutor) -> Result<(), (String, String)> {
    let areas = ax.verif_areas();
    for (i, s) in d.segs.iter().enumerate() {
        if s.p_type != PT_LOAD {
            continue;
        }
        let a = match areas.iter().find(|a| a.start == s.vaddr) {
            Some(a) => a,
            None => return Err(("segment|no-area-at-vaddr".into(), format!("no area starts at p_vaddr {:#x} of loadable segment {}", s.vaddr, i))),
        };
        if (a.data.len() as u64) < s.memsz {
            return Err(("segment|area-shorter-than-memsz".into(), format!("segment {} at {:#x}: area has {} bytes, p_memsz is {}", i, s.vaddr, a.data.len(), s.memsz)));
        }
        let off = lay.seg_offsets[i];
        let fb = &file[off..off + s.filesz as usize];
        if &a.data[..s.filesz as usize] != fb {
            let k = a.data.iter().zip(fb.iter()).position(|(x, y)| x != y).unwrap_or(0);
            return Err(("segment|file-bytes-differ".into(), format!("segment {} at {:#x}: byte +{:#x} is {:#x}, the file has {:#x}", i, s.vaddr, k, a.data[k], fb[k])));
        }
        if let Some(k) = a.data[s.filesz as usize..s.memsz as usize].iter().position(|b| *b != 0) {
            return Err(("segment|bss-not-zero".into(), format!("segment {} at {:#x}: byte +{:#x} beyond p_filesz is {:#x}, must read as zero", i, s.vaddr, s.filesz as usize + k, a.data[s.filesz as usize + k])));
        }
        let want = (if s.flags & 4 != 0 { 1 } else { 0 }) | (if s.flags & 2 != 0 { 2 } else { 0 }) | (if s.flags & 1 != 0 { 4 } else { 0 });
        if a.access != want {
            return Err(("segment|permissions-differ-from-flags".into(), format!("segment {} at {:#x}: p_flags {:#x} (mask {}), area mask {}", i, s.vaddr, s.flags, want, a.access)));
        }
    }
    let rip = ax.reg_read_64(SR::RIP).unwrap();
    if rip != d.entry {
        return Err(("entry|rip-differs".into(), format!("rip {:#x}, e_entry {:#x}", rip, d.entry)));
    }
    for (i, a) in areas.iter().enumerate() {
        for b in areas.iter().skip(i + 1) {
            let (a0, a1) = (a.start as u128, a.start as u128 + a.length as u128);
            let (b0, b1) = (b.start as u128, b.start as u128 + b.length as u128);
            if a0 < b1 && b0 < a1 && a.length > 0 && b.length > 0 {
                return Err(("areas|overlap".into(), format!("areas {:#x}+{:#x} and {:#x}+{:#x} overlap", a.start, a.length, b.start, b.length)));
            }
        }
    }
    if let Some(syms) = &d.syms {
        for s in syms.iter().filter(|s| s.defined) {
            // (the loader's synthetic "_start" at the entry is not a symbol *defined there*: an entry that
            // carries its own defined symbols must resolve to one of those)
            let names: Vec<String> = syms.iter().filter(|x| x.defined && x.value == s.value).map(|x| x.name.clone().unwrap_or_default()).collect();
            match ax.resolve_symbol(s.value) {
                Some(n) if names.contains(&n) => {}
                other => return Err(("symbol|wrong-or-missing-name".into(), format!("address {:#x} carries the defined symbols {:?} but resolves to {:?}", s.value, names, other))),
            }
        }
    }
    Ok(())
}

impl Property for C15 {
    type Case = Case;
    fn id(&self) -> &'static str {
        "C15"
    }
    fn shape(&self) -> Shape {
        Shape::flat(160)
    }
    fn cases(&self, tier: Tier) -> u64 {
        match tier {
            Tier::Quick => 3_000_000,
            Tier::Thorough => 50_000_000,
        }
    }
    fn decode(&mut self, tape: &TapeVal) -> Case {
        let mut t = Tape::new(&tape[0]);
        Case { desc: Some(elfb::gen_desc(&mut t)), testdata: None }
    }
    fn fixed_cases(&mut self, _tier: Tier) -> Vec<Case> {
        TESTDATA.iter().map(|n| Case { desc: None, testdata: Some(n.to_string()) }).collect()
    }
    fn exec(&mut self, c: &Case) -> CaseOut {
        let mut out = CaseOut::pass(false, hash_json(c));
        if let Some(name) = &c.testdata {
            // replay seeds: the repository's own binaries must load and describe themselves
            let bytes = match std::fs::read(format!("/repo/testdata/{}", name)) {
                Ok(b) => b,
                Err(_) => return CaseOut::discard("testdata-file-missing"),
            };
            out = out.class("testdata");
            out.nontrivial = true;
            return match api(|| Axecutor::from_binary(&bytes)) {
                Api::Ok(ax) => {
                    use elf_min::*;
                    match parse(&bytes) {
                        Some((entry, loads)) => {
                            if ax.reg_read_64(SR::RIP).unwrap() != entry {
                                out.verdict = Verdict::Fail { sig: "C15|entry|rip-differs".into(), msg: format!("{}: rip differs from e_entry", name) };
                            }
                            for (vaddr, off, filesz, _memsz, flags) in loads {
                                let want = (if flags & 4 != 0 { 1 } else { 0 }) | (if flags & 2 != 0 { 2 } else { 0 }) | (if flags & 1 != 0 { 4 } else { 0 });
                                match ax.verif_area_data(vaddr) {
                                    Some(d) if d.len() as u64 >= filesz && d[..filesz as usize] == bytes[off as usize..(off + filesz) as usize] => {
                                        let m = ax.verif_area_meta().into_iter().find(|m| m.0 == vaddr).unwrap();
                                        if m.2 != want {
                                            out.verdict = Verdict::Fail { sig: "C15|segment|permissions-differ-from-flags".into(), msg: format!("{}: segment {:#x} mask {} expected {}", name, vaddr, m.2, want) };
                                        }
                                    }
                                    _ => out.verdict = Verdict::Fail { sig: "C15|segment|file-bytes-differ".into(), msg: format!("{}: segment {:#x} not reproduced", name, vaddr) },
                                }
                            }
                            out
                        }
                        None => CaseOut::discard("testdata-not-elf64"),
                    }
                }
                other => {
                    out.verdict = Verdict::Fail { sig: "C15|load|test-binary-rejected".into(), msg: format!("{}: {}", name, other.short()) };
                    out
                }
            };
        }
        let d = c.desc.as_ref().unwrap();
        let (file, lay) = elfb::build(d);
        let loads = d.segs.iter().filter(|s| s.p_type == PT_LOAD).count();
        out.nontrivial = loads >= 2 || d.segs.iter().any(|s| s.p_type == PT_LOAD && s.memsz > s.filesz) || d.syms.is_some();
        out = out.class(format!("loads:{}", loads));
        if d.segs.iter().any(|s| s.p_type == PT_LOAD && s.vaddr & 0xfff != 0) {
            out = out.class("unaligned-vaddr");
        }
        if d.segs.iter().any(|s| s.p_type == PT_LOAD && s.memsz > s.filesz) {
            out = out.class("bss-tail");
        }
        if d.syms.is_some() {
            out = out.class("symtab");
        }
        if !d.with_shdrs {
            out = out.class("no-section-headers");
        }
        match api(|| Axecutor::from_binary(&file)) {
            Api::Ok(ax) => {
                if let Err((sig, msg)) = check_loaded(d, &file, &lay, &ax) {
                    out.verdict = Verdict::Fail { sig: format!("C15|{}", sig), msg: format!("{}\n  description: {:x?}", msg, d) };
                    out.nontrivial = true;
                }
            }
            Api::Err(e) => {
                out.verdict = Verdict::Fail { sig: "C15|load|well-formed-file-rejected".into(), msg: format!("loading failed: {}\n  description: {:x?}", e.lines().next().unwrap_or(""), d) };
                out.nontrivial = true;
            }
            Api::Panic(p) => {
                out.verdict = Verdict::Fail { sig: format!("C15|load|{}", p.signature()), msg: format!("loading crashed: {} at {}\n  description: {:x?}", p.message, p.location, d) };
                out.nontrivial = true;
            }
        }
        out
    }
    fn rule(&self) -> String {
        "cases: ELF64-LE ET_EXEC/EM_X86_64 files constructed from a description — 1–5 PT_LOAD in shuffled order on distinct (possibly adjacent) pages, p_offset ≡ p_vaddr (mod 4096) incl. unaligned p_vaddr, p_filesz ∈ {0,1,…,3 pages}, p_memsz ∈ {= filesz, bss tail, page multiples, one over, ending on a page boundary}, all 8 flag masks, optional PT_NOTE/PT_GNU_STACK/PT_NULL/PT_PHDR, entry inside a segment, optional .symtab/.strtab with named, unnamed, undefined and same-address symbols, with and without section headers; the repository's eight test binaries are fixed cases; oracle: read the description back (file bytes at p_vaddr, zero up to p_memsz, mask = p_flags, RIP = e_entry, every defined symbol's address resolves to a name defined there, areas disjoint); non-trivial = ≥2 loadable segments, a bss tail or a symbol table; distinct by hash(description)".into()
    }
    fn required_classes(&self, _tier: Tier) -> Vec<String> {
        ["unaligned-vaddr", "bss-tail", "symtab", "no-section-headers", "loads:1", "loads:5", "testdata"].iter().map(|s| s.to_string()).collect()
    }
    fn assumptions(&self) -> Vec<String> {
        vec!["no loadable segment has p_vaddr = 0 (the loader skips those by design) and no PT_DYNAMIC/PT_TLS/PT_GNU_RELRO is generated (static, non-TLS executables)".into()]
    }
}

/// Minimal ELF64 program-header reader for the test binaries (independent of the `elf` crate).
pub mod elf_min {
    pub fn parse(b: &[u8]) -> Option<(u64, Vec<(u64, u64, u64, u64, u32)>)> {
        if b.len() < 64 || &b[..4] != b"\x7fELF" || b[4] != 2 || b[5] != 1 {
            return None;
        }
        let u16a = |o: usize| u16::from_le_bytes(b[o..o + 2].try_into().unwrap());
        let u32a = |o: usize| u32::from_le_bytes(b[o..o + 4].try_into().unwrap());
        let u64a = |o: usize| u64::from_le_bytes(b[o..o + 8].try_into().unwrap());
        let entry = u64a(24);
        let phoff = u64a(32) as usize;
        let phnum = u16a(56) as usize;
        let mut v = vec![];
        for i in 0..phnum {
            let o = phoff + 56 * i;
            if o + 56 > b.len() {
                return None;
            }
            if u32a(o) == 1 && u64a(o + 16) != 0 {
                v.push((u64a(o + 16), u64a(o + 8), u64a(o + 32), u64a(o + 40), u32a(o + 4)));
            }
        }
        Some((entry, v))
    }
}
