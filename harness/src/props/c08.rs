//! C08: guest memory is a consistent little-endian byte store with strict bounds.
use super::mu::*;
use crate::sup::{CaseOut, Property, Tier, Verdict};
use crate::tape::{Shape, Tape, TapeVal};
use ax_x86::axecutor::Axecutor;
use ax_x86::state::registers::SupportedRegister as SR;
use serde::{Deserialize, Serialize};

pub const CODE_AT: u64 = 0x0000_6000_0000_0000;

/// guest templates: (bytes, width, is_store). Operand address in RBX, data in RAX / XMM0.
const TEMPLATES: [(&[u8], u64, bool); 10] = [
    (&[0x8a, 0x03], 1, false),       // mov al,[rbx]
    (&[0x66, 0x8b, 0x03], 2, false), // mov ax,[rbx]
    (&[0x8b, 0x03], 4, false),       // mov eax,[rbx]
    (&[0x48, 0x8b, 0x03], 8, false), // mov rax,[rbx]
    (&[0x0f, 0x10, 0x03], 16, false), // movups xmm0,[rbx]
    (&[0x88, 0x03], 1, true),        // mov [rbx],al
    (&[0x66, 0x89, 0x03], 2, true),  // mov [rbx],ax
    (&[0x89, 0x03], 4, true),        // mov [rbx],eax
    (&[0x48, 0x89, 0x03], 8, true),  // mov [rbx],rax
    (&[0x0f, 0x11, 0x03], 16, true), // movups [rbx],xmm0
];

fn code_image() -> (Vec<u8>, Vec<u64>) {
    let mut img = vec![];
    let mut offs = vec![];
    for (b, _, _) in TEMPLATES.iter() {
        offs.push(CODE_AT + img.len() as u64);
        img.extend_from_slice(b);
        img.push(0x90);
    }
    img.push(0x90);
    (img, offs)
}

#[derive(Clone, Debug, Serialize, Deserialize)]
pub enum Op {
    /// API typed write: width in bytes (1,2,4,8,16), value (low `width` bytes used unless `wide`)
    Write { width: u64, addr: u64, value: u128 },
    WriteBytes { addr: u64, len: u64, seed: u64 },
    Read { width: u64, addr: u64 },
    ReadBytes { addr: u64, len: u64 },
    Guest { template: usize, addr: u64, value: u128 },
    /// mem_resize_section on the `area`-th area (whether it must succeed is C10's question; here: bytes
    /// that stay keep their value, bytes that (re)appear read as zero, whatever happened in between)
    Resize { area: usize, new_len: u64 },
}

#[derive(Clone, Debug, Serialize, Deserialize)]
pub struct Case {
    pub areas: Vec<(u64, u64, u64)>, // start, len, fill seed
    pub ops: Vec<Op>,
}

struct MArea {
    start: u64,
    data: Vec<u8>,
    writable: bool,
}

pub struct C08;

fn gen_addr(t: &mut Tape, areas: &[(u64, u64, u64)]) -> u64 {
    let n = areas.len() as u64;
    let (s, l, _) = if n > 0 { areas[t.below(n) as usize] } else { (0x1000, 0, 0) };
    match t.below(12) {
        0 | 1 | 2 | 3 => s.wrapping_add(t.below(l.max(1))), // inside
        4 => s,
        5 => s.wrapping_add(l).wrapping_sub(1 + t.below(17)), // last bytes
        6 => s.wrapping_sub(1 + t.below(17)),                 // just before
        7 => s.wrapping_add(l).wrapping_add(t.below(3)),      // at / after the end
        8 => t.pick(&[0u64, 1, 1 << 63, (1 << 63) - 1, u64::MAX, u64::MAX - 1, u64::MAX - 7, u64::MAX - 15, u64::MAX - 16]),
        9 => u64::MAX - t.below(64),
        10 => CODE_AT + t.below(40),
        _ => t.val64(),
    }
}

fn gen_len(t: &mut Tape, areas: &[(u64, u64, u64)]) -> u64 {
    let n = areas.len() as u64;
    let l = if n > 0 { areas[t.below(n) as usize].1 } else { 0 };
    match t.below(10) {
        0 => 0,
        1 | 2 | 3 => 1 + t.below(32),
        4 => l,
        5 => l.wrapping_add(1),
        6 => l.wrapping_sub(1),
        7 => t.pick(&[1u64 << 32, 1 << 63, u64::MAX - 15, u64::MAX, u64::MAX - 1, (1 << 32) + 1]),
        _ => t.below(0x400),
    }
}

impl Property for C08 {
    type Case = Case;
    fn id(&self) -> &'static str {
        "C08"
    }
    fn shape(&self) -> Shape {
        Shape::hist(1, 40, 12)
    }
    fn cases(&self, tier: Tier) -> u64 {
        match tier {
            Tier::Quick => 2_000_000,
            Tier::Thorough => 25_000_000,
        }
    }
    fn decode(&mut self, tape: &TapeVal) -> Case {
        // row 0: layout
        let mut t = Tape::new(&tape[0]);
        let n = 1 + t.below(5);
        let mut areas: Vec<(u64, u64, u64)> = vec![];
        let mut cursor = 0x1_0000u64;
        for k in 0..n {
            let len = match t.weighted(&[70, 25, 5]) {
                0 => t.below(0x200),
                1 => t.below(0x1000),
                _ => t.below(0x3000),
            };
            let start = if k == n - 1 && t.below(4) == 0 {
                // an area that ends exactly at the top of the address space
                0u64.wrapping_sub(len.max(1))
            } else {
                // every third area directly follows its predecessor (no gap): an access that runs past the
                // end of its area must fail even when the next byte is mapped
                if !(k > 0 && areas.last().map_or(false, |a| a.1 > 0) && t.below(3) == 0) {
                    cursor += 0x1000 * (1 + t.below(4)) + t.below(16);
                }
                let s = cursor;
                cursor += len;
                s
            };
            let len = if start.checked_add(len).is_none() && start.wrapping_add(len) != 0 { 0u64.wrapping_sub(start) } else { len };
            areas.push((start, len, t.raw()));
        }
        let mut ops = vec![];
        for row in tape.iter().skip(1) {
            let mut t = Tape::new(row);
            let kind = t.weighted(&[25, 15, 20, 15, 25, 5]);
            let addr = gen_addr(&mut t, &areas);
            let op = match kind {
                0 => {
                    let width = t.pick(&[1u64, 2, 4, 8, 16]);
                    let v = (t.raw() as u128) | ((t.raw() as u128) << 64);
                    let value = if width == 16 { v } else if width == 8 { v & u64::MAX as u128 } else if t.below(6) == 0 { v & u64::MAX as u128 } else { v & ((1u128 << (8 * width)) - 1) };
                    Op::Write { width, addr, value }
                }
                1 => Op::WriteBytes { addr, len: gen_len(&mut t, &areas).min(0x4000), seed: t.raw() },
                2 => Op::Read { width: t.pick(&[1u64, 2, 4, 8, 16]), addr },
                3 => Op::ReadBytes { addr, len: gen_len(&mut t, &areas) },
                5 => Op::Resize { area: t.below(8) as usize, new_len: match t.below(4) { 0 => 0, 1 => t.below(0x40), _ => t.below(0x1800) } },
                _ => Op::Guest { template: t.below(TEMPLATES.len() as u64) as usize, addr, value: (t.raw() as u128) | ((t.raw() as u128) << 64) },
            };
            ops.push(op);
        }
        Case { areas, ops }
    }

    fn exec(&mut self, c: &Case) -> CaseOut {
        let (img, offs) = code_image();
        let mut ax = match api(|| Axecutor::new(&img, CODE_AT, CODE_AT)) {
            Api::Ok(a) => a,
            other => return CaseOut::fail("HARNESS-FAULT|C08-new".into(), other.short()),
        };
        init_regs(&mut ax, 7);
        let mut model: Vec<MArea> = vec![MArea { start: CODE_AT, data: img.clone(), writable: false }];
        let mut out = CaseOut::pass(false, hash_json(c));
        for (start, len, seed) in &c.areas {
            let data = crate::mach::fill(*seed, crate::native::ArenaKind::Rw, *len as usize);
            match api(|| ax.mem_init_area(*start, data.clone())) {
                Api::Ok(_) => model.push(MArea { start: *start, data, writable: true }),
                Api::Err(_) => {} // layout collision: not this property's subject (C10)
                p @ Api::Panic(_) => {
                    out.verdict = Verdict::Fail { sig: format!("C08|layout|{}", if let Api::Panic(pi) = &p { pi.signature() } else { String::new() }), msg: format!("creating area {:#x}+{:#x} crashed: {}", start, len, p.short()) };
                    out.nontrivial = true;
                    return out;
                }
            }
        }
        // model lookup: the access must lie entirely inside one area
        fn find(model: &[MArea], addr: u64, len: u64) -> Option<usize> {
            model.iter().position(|a| addr >= a.start && (addr - a.start) as u128 + len as u128 <= a.data.len() as u128 && (addr - a.start) < a.data.len() as u64)
        }
        let mut nontrivial = false;
        let mut last_write: Option<(u64, u64)> = None;
        let mut classes: Vec<&'static str> = vec![];
        for (n, op) in c.ops.iter().enumerate() {
            let desc = format!("op #{} {:x?}", n, op);
            if let Op::Resize { area, new_len } = op {
                if model.len() < 2 {
                    continue;
                }
                let i = 1 + area % (model.len() - 1); // never the code area (index 0): the guest templates live there
                let start = model[i].start;
                if model.iter().filter(|a| a.start == start).count() > 1 {
                    continue; // two areas share this start (one of them empty): which one is meant is left open
                }
                let r = api(|| ax.mem_resize_section(start, *new_len));
                match &r {
                    Api::Panic(p) => {
                        out.verdict = Verdict::Fail { sig: format!("C08|resize|{}", p.signature()), msg: format!("{} crashed: {}", desc, r.short()) };
                        out.nontrivial = true;
                        return out;
                    }
                    Api::Ok(_) => {
                        model[i].data.resize(*new_len as usize, 0);
                        classes.push("resize");
                        let (s0, l0) = (model[i].start as u128, model[i].data.len() as u128);
                        if model.iter().enumerate().any(|(k, a)| k != i && l0 > 0 && a.data.len() > 0 && s0 < a.start as u128 + a.data.len() as u128 && (a.start as u128) < s0 + l0) {
                            // an overlap was accepted: that is C10's violation, the byte-store model ends here
                            for cl in classes {
                                out = out.class(cl);
                            }
                            return out.class("resize-accepted-an-overlap (C10 decides)");
                        }
                    }
                    Api::Err(_) => {}
                }
                let meta = ax.verif_area_meta();
                for a in &model {
                    let got = ax.verif_area_data(a.start).unwrap_or(&[]);
                    if meta.len() != model.len() || got != a.data.as_slice() {
                        let off = got.iter().zip(a.data.iter()).position(|(x, y)| x != y).unwrap_or(got.len().min(a.data.len()));
                        out.verdict = Verdict::Fail {
                            sig: "C08|resize|bytes-not-kept-or-not-zero".into(),
                            msg: format!("after {} ({}): area {:#x} ({} bytes, model {}) differs from the byte-store model at +{:#x}: {:02x?} vs {:02x?}", desc, r.short(), a.start, got.len(), a.data.len(), off, got.get(off), a.data.get(off)),
                        };
                        out.nontrivial = true;
                        return out;
                    }
                }
                continue;
            }
            let (addr, len) = match op {
                Op::Write { width, addr, .. } | Op::Read { width, addr } => (*addr, *width),
                Op::WriteBytes { addr, len, .. } | Op::ReadBytes { addr, len } => (*addr, *len),
                Op::Guest { template, addr, .. } => (*addr, TEMPLATES[*template].1),
                Op::Resize { .. } => unreachable!(),
            };
            let is_write = matches!(op, Op::Write { .. } | Op::WriteBytes { .. }) || matches!(op, Op::Guest { template, .. } if TEMPLATES[*template].2);
            let hit = find(&model, addr, len);
            let edge = model.iter().any(|a| {
                let e = a.start.wrapping_add(a.data.len() as u64);
                addr.wrapping_sub(a.start).min(a.start.wrapping_sub(addr)) < 16 || addr.wrapping_add(len).wrapping_sub(e).min(e.wrapping_sub(addr.wrapping_add(len))) < 16
            });
            let extreme = addr > u64::MAX - 64 || len > (1 << 31);
            let crosses = len > 0 && hit.is_none() && {
                let home = model.iter().find(|a| addr >= a.start && addr - a.start < a.data.len() as u64);
                let home_end = home.and_then(|a| a.start.checked_add(a.data.len() as u64));
                match (home_end, addr.checked_add(len)) {
                    (Some(he), Some(e)) => e > he && model.iter().any(|b| b.data.len() > 0 && b.start == he),
                    _ => false,
                }
            };
            if crosses {
                classes.push("runs-into-adjacent-area");
            }
            if edge || extreme {
                nontrivial = true;
                classes.push(if extreme { "extreme-address-or-length" } else { "edge-access" });
            }
            // expected bytes for a write
            let wbytes: Option<Vec<u8>> = match op {
                Op::Write { width, value, .. } => {
                    if *width < 16 && *value >> (8 * *width) != 0 {
                        None // over-wide value: must be rejected without effect
                    } else {
                        Some(value.to_le_bytes()[..*width as usize].to_vec())
                    }
                }
                Op::WriteBytes { len, seed, .. } => Some(crate::mach::fill(*seed, crate::native::ArenaKind::Ro, *len as usize)),
                Op::Guest { template, value, .. } if TEMPLATES[*template].2 => Some(value.to_le_bytes()[..TEMPLATES[*template].1 as usize].to_vec()),
                _ => None,
            };
            // perform
            let res: Api<Vec<u8>> = match op {
                Op::Write { width, addr, value } => api(|| {
                    match width {
                        1 => ax.mem_write_8(*addr, *value as u64),
                        2 => ax.mem_write_16(*addr, *value as u64),
                        4 => ax.mem_write_32(*addr, *value as u64),
                        8 => ax.mem_write_64(*addr, *value as u64),
                        _ => ax.mem_write_128(*addr, *value),
                    }
                    .map(|_| vec![])
                }),
                Op::WriteBytes { addr, .. } => {
                    let b = wbytes.clone().unwrap();
                    api(|| ax.mem_write_bytes(*addr, &b).map(|_| vec![]))
                }
                Op::Read { width, addr } => api(|| match width {
                    1 => ax.mem_read_8(*addr).map(|v| v.to_le_bytes()[..1].to_vec()),
                    2 => ax.mem_read_16(*addr).map(|v| v.to_le_bytes()[..2].to_vec()),
                    4 => ax.mem_read_32(*addr).map(|v| v.to_le_bytes()[..4].to_vec()),
                    8 => ax.mem_read_64(*addr).map(|v| v.to_le_bytes().to_vec()),
                    _ => ax.mem_read_128(*addr).map(|v| v.to_le_bytes().to_vec()),
                }),
                Op::ReadBytes { addr, len } => api(|| ax.mem_read_bytes(*addr, *len)),
                Op::Resize { .. } => unreachable!(),
                Op::Guest { template, addr, value } => {
                    let (_, w, st) = TEMPLATES[*template];
                    ax.reg_write_64(SR::RIP, offs[*template]).unwrap();
                    ax.reg_write_64(SR::RBX, *addr).unwrap();
                    ax.reg_write_64(SR::RAX, if st { *value as u64 } else { 0x5a5a_5a5a_5a5a_5a5a }).unwrap();
                    ax.reg_write_128(SR::XMM0, if st { *value } else { 0 }).unwrap();
                    match step(&mut ax) {
                        Api::Ok(_) => {
                            if st {
                                Api::Ok(vec![])
                            } else if w == 16 {
                                Api::Ok(ax.reg_read_128(SR::XMM0).unwrap().to_le_bytes().to_vec())
                            } else {
                                Api::Ok(ax.reg_read_64(SR::RAX).unwrap().to_le_bytes()[..w as usize].to_vec())
                            }
                        }
                        Api::Err(e) => Api::Err(e),
                        Api::Panic(p) => Api::Panic(p),
                    }
                }
            };
            let path = if matches!(op, Op::Guest { .. }) { "guest" } else { "api" };
            if let Api::Panic(p) = &res {
                out.verdict = Verdict::Fail { sig: format!("C08|{}|{}", path, p.signature()), msg: format!("{} crashed: {}", desc, res.short()) };
                out.nontrivial = true;
                return out;
            }
            let zero_len = len == 0;
            let must_succeed = !zero_len && hit.is_some() && (!is_write || (model[hit.unwrap()].writable && wbytes.is_some()));
            let must_fail = !zero_len && (hit.is_none() || (is_write && (wbytes.is_none() || !model[hit.unwrap()].writable)));
            if must_succeed {
                match &res {
                    Api::Ok(got) => {
                        let a = &mut model[hit.unwrap()];
                        let off = (addr - a.start) as usize;
                        if is_write {
                            let b = wbytes.as_ref().unwrap();
                            a.data[off..off + b.len()].copy_from_slice(b);
                            last_write = Some((addr, len));
                        } else {
                            let want = &a.data[off..off + len as usize];
                            if got.as_slice() != want {
                                out.verdict = Verdict::Fail {
                                    sig: format!("C08|{}|read-returns-wrong-bytes", path),
                                    msg: format!("{} returned {:02x?}, the byte store holds {:02x?}", desc, &got[..got.len().min(24)], &want[..want.len().min(24)]),
                                };
                                out.nontrivial = true;
                                return out;
                            }
                            if let Some((wa, wl)) = last_write {
                                if wa < addr.wrapping_add(len) && addr < wa.wrapping_add(wl) && wl != len {
                                    nontrivial = true;
                                    classes.push("write-then-overlapping-read-of-other-width");
                                }
                            }
                        }
                        classes.push("in-bounds");
                    }
                    _ => {
                        out.verdict = Verdict::Fail { sig: format!("C08|{}|in-bounds-access-rejected", path), msg: format!("{} lies inside one area but answered {}", desc, res.short()) };
                        out.nontrivial = true;
                        return out;
                    }
                }
            } else if must_fail {
                classes.push("out-of-bounds");
                if res.is_ok() {
                    out.verdict = Verdict::Fail {
                        sig: format!("C08|{}|{}", path, if hit.is_none() { "out-of-bounds-access-accepted" } else if wbytes.is_none() { "over-wide-value-accepted" } else { "write-to-non-writable-accepted" }),
                        msg: format!("{} must fail but answered Ok", desc),
                    };
                    out.nontrivial = true;
                    return out;
                }
            } else {
                classes.push("zero-length");
            }
            // after every operation the whole store equals the model
            let meta = ax.verif_area_meta();
            if meta.len() != model.len() {
                out.verdict = Verdict::Fail { sig: "C08|area-list-changed".into(), msg: format!("after {}: {} areas, expected {}", desc, meta.len(), model.len()) };
                return out;
            }
            for a in &model {
                let got = ax.verif_area_data(a.start).unwrap_or(&[]);
                if got != a.data.as_slice() {
                    let off = got.iter().zip(a.data.iter()).position(|(x, y)| x != y).unwrap_or(got.len().min(a.data.len()));
                    out.verdict = Verdict::Fail {
                        sig: format!("C08|{}|{}", path, if res.is_ok() { "write-changed-other-bytes-or-wrong-bytes" } else { "failed-access-changed-memory" }),
                        msg: format!("after {} ({}): area {:#x} differs from the byte-store model at +{:#x}: {:02x?} vs {:02x?}", desc, res.short(), a.start, off, got.get(off), a.data.get(off)),
                    };
                    out.nontrivial = true;
                    return out;
                }
            }
        }
        out.nontrivial = nontrivial;
        classes.sort();
        classes.dedup();
        for cl in classes {
            out = out.class(cl);
        }
        out
    }

    fn rule(&self) -> String {
        "cases: layouts of 1–5 areas (sizes 0…0x3000, one possibly ending at 2^64, a third of them directly adjacent to their predecessor) and histories of ≤39 operations — typed API writes/reads of 1/2/4/8/16 bytes, byte-slice writes/reads, guest MOV/MOVUPS loads and stores executed with step(), and (5 %) mem_resize_section of an area (kept bytes keep their value, bytes that reappear read as zero) — at addresses inside, at first/last bytes, around both edges, at 0/2^63/2^64−k and uniform, with lengths incl. 0, area size±1, 2^32, 2^63, 2^64−1; a byte-map model decides success and contents; the full contents of every area are compared with the model after every operation; non-trivial = a write followed by an overlapping read of another width, an access within 16 bytes of an edge, or an extreme address/length; distinct by hash of the history".into()
    }
    fn required_classes(&self, _tier: Tier) -> Vec<String> {
        vec!["in-bounds".into(), "out-of-bounds".into(), "edge-access".into(), "extreme-address-or-length".into(), "write-then-overlapping-read-of-other-width".into(), "runs-into-adjacent-area".into()]
    }
    fn assumptions(&self) -> Vec<String> {
        vec!["zero-length accesses are only required not to crash and not to change state (the statement leaves their verdict open)".into(), "area creation itself is C10's subject: a layout entry that is rejected is simply absent from the model".into()]
    }
}
