//! C14: the built-in pipe handler implements FIFO byte streams.
use super::mu::*;
use crate::prog;
use crate::sup::{CaseOut, Property, Tier, Verdict};
use crate::tape::{Shape, Tape, TapeVal};
use ax_x86::auto::generated::SupportedMnemonic;
use ax_x86::axecutor::Axecutor;
use ax_x86::helpers::syscalls::Syscall;
use ax_x86::state::registers::SupportedRegister as SR;
use serde::{Deserialize, Serialize};
use std::collections::VecDeque;

const CODE_AT: u64 = 0x1000;
const DATA: u64 = 0x10_0000;
const DLEN: u64 = 0x1000;

#[derive(Clone, Debug, Serialize, Deserialize)]
pub enum Op {
    Pipe,
    Write { pipe: usize, n: u64, seed: u64 },
    Read { pipe: usize, n: u64, #[serde(default)] bad_buf: u8 },
    /// write on a read end (true) / read on a write end (false): no verdict is demanded, but the streams must not change
    WrongEnd { pipe: usize, write: bool, n: u64 },
    /// read (false) / write (true) on a descriptor that is not a pipe end
    /// `alias` > 0: the descriptor is a live pipe end plus a high part (k·2^32, or 2^63): equal to a pipe
    /// end only in its low 32 bits, hence not a pipe end
    Foreign { write: bool, fd: u64, n: u64, #[serde(default)] bad_buf: u8, #[serde(default)] alias: u8 },
}

#[derive(Clone, Debug, Serialize, Deserialize)]
pub struct Case {
    pub ops: Vec<Op>,
}

pub struct C14;

impl Property for C14 {
    type Case = Case;
    fn id(&self) -> &'static str {
        "C14"
    }
    fn shape(&self) -> Shape {
        Shape::hist(2, 40, 7)
    }
    fn cases(&self, tier: Tier) -> u64 {
        match tier {
            Tier::Quick => 2_500_000,
            Tier::Thorough => 30_000_000,
        }
    }
    fn decode(&mut self, tape: &TapeVal) -> Case {
        let mut ops = vec![Op::Pipe];
        for row in tape.iter().skip(1) {
            let mut t = Tape::new(row);
            let n = match t.below(6) {
                0 => 0,
                1 => 1,
                2 => t.below(8),
                3 => 300,
                _ => t.below(301),
            };
            ops.push(match t.weighted(&[8, 36, 38, 13, 5]) {
                0 => Op::Pipe,
                1 => Op::Write { pipe: t.below(4) as usize, n, seed: t.raw() },
                2 => Op::Read { pipe: t.below(4) as usize, n, bad_buf: t.weighted(&[85, 5, 5, 5]) as u8 },
                4 => Op::WrongEnd { pipe: t.below(4) as usize, write: t.bool(), n },
                _ => Op::Foreign { write: t.bool(), fd: t.pick(&[0u64, 1, 2, 3, 5, 100, 1023]), n, bad_buf: t.weighted(&[60, 15, 15, 10]) as u8, alias: t.weighted(&[80, 7, 7, 6]) as u8 },
            });
        }
        Case { ops }
    }

    fn exec(&mut self, c: &Case) -> CaseOut {
        let mut out = CaseOut::pass(false, hash_json(c));
        let fail = |out: &mut CaseOut, sig: &str, msg: String| {
            out.verdict = Verdict::Fail { sig: format!("C14|{}", sig), msg };
            out.nontrivial = true;
        };
        let code = [0x0f, 0x05, 0x90, 0x90];
        let mut ax = match api(|| Axecutor::new(&code, CODE_AT, CODE_AT)) {
            Api::Ok(a) => a,
            other => return CaseOut::fail("HARNESS-FAULT|C14-new".into(), other.short()),
        };
        init_regs(&mut ax, 5);
        ax.mem_init_area(DATA, vec![0xaa; DLEN as usize]).unwrap();
        if let Err(e) = ax.handle_syscalls(vec![Syscall::Pipe]) {
            return CaseOut::fail("HARNESS-FAULT|C14-handle".into(), e.to_string());
        }
        // user hook registered after the built-in handlers: logs what reaches it
        prog::reset_hooks(prog::HookScript { outcomes: vec![vec![prog::Outcome::Handled]], modify: vec![None], register_inside: None });
        ax.hook_before_mnemonic_native(SupportedMnemonic::Syscall, prog::hook_fn(0)).unwrap();

        let mut pipes: Vec<(u64, u64, VecDeque<u8>)> = vec![]; // read fd, write fd, model queue
        let (mut partial_then_read, mut interleaved) = (false, false);
        let mut last_pipe_used: Option<usize> = None;
        let mut last_read_partial: Option<usize> = None;
        let mut classes: Vec<&'static str> = vec![];
        let buf = DATA + 0x100;
        let a_call_failed = std::cell::Cell::new(false);
        let sys = |ax: &mut Axecutor, rax: u64, rdi: u64, rsi: u64, rdx: u64| -> (Api<u64>, Vec<prog::Event>) {
            ax.reg_write_64(SR::RIP, CODE_AT).unwrap();
            ax.reg_write_64(SR::RAX, rax).unwrap();
            ax.reg_write_64(SR::RDI, rdi).unwrap();
            ax.reg_write_64(SR::RSI, rsi).unwrap();
            ax.reg_write_64(SR::RDX, rdx).unwrap();
            let r = match step(ax) {
                Api::Ok(_) => Api::Ok(ax.reg_read_64(SR::RAX).unwrap()),
                Api::Err(e) => {
                    a_call_failed.set(true);
                    Api::Err(e)
                }
                Api::Panic(p) => Api::Panic(p),
            };
            (r, prog::take_events())
        };
        for (n, op) in c.ops.iter().enumerate() {
            // whether a machine can go on after a failed step is not this property's business: if an
            // earlier call of this history failed and the machine now counts as finished, the history ends
            // (and is not drained)
            if a_call_failed.get() && ax.verif_finished() {
                let mut o = out.class("history-ended:machine-finished-after-a-failed-call");
                for cl in classes.iter() {
                    o = o.class(*cl);
                }
                return o;
            }
            let desc = format!("op #{} {:x?}", n, op);
            match op {
                Op::Pipe => {
                    if pipes.len() >= 4 {
                        continue;
                    }
                    let fdp = DATA + 0x10;
                    ax.mem_write_bytes(fdp, &[0xaa; 16]).unwrap();
                    if !pipes.is_empty() {
                        out = out.class("pipe-create-beside-existing-pipes");
                    }
                    let (r, ev) = sys(&mut ax, 22, fdp, 0, 0);
                    match r {
                        Api::Ok(_) => {}
                        // the handler draws descriptor numbers at random (16 bits) and refuses a number that is
                        // already a pipe end: with pipes open, a refusal with a valid buffer ends the history
                        // without a verdict; post_check bounds how often that may happen (no error text is read)
                        Api::Err(_) if !pipes.is_empty() => return out.class("pipe-create-refused-beside-existing-pipes"),
                        other => {
                            fail(&mut out, &format!("pipe|{}", if let Api::Panic(p) = &other { p.signature() } else { "failed".into() }), format!("{}: pipe() answered {}", desc, other.short()));
                            return out;
                        }
                    }
                    if !ev.is_empty() {
                        fail(&mut out, "pipe|reached-user-hook", format!("{}: the pipe() call was passed on to the user's syscall hook", desc));
                        return out;
                    }
                    let b = ax.mem_read_bytes(fdp, 16).unwrap();
                    let (rfd, wfd) = if b[8..16].iter().all(|x| *x == 0xaa) {
                        (u32::from_le_bytes(b[0..4].try_into().unwrap()) as u64, u32::from_le_bytes(b[4..8].try_into().unwrap()) as u64)
                    } else {
                        (u64::from_le_bytes(b[0..8].try_into().unwrap()), u64::from_le_bytes(b[8..16].try_into().unwrap()))
                    };
                    if rfd == wfd || pipes.iter().any(|p| p.0 == rfd || p.1 == rfd || p.0 == wfd || p.1 == wfd) {
                        // descriptor values are exempt from every comparison (C20); the model just cannot tell the ends apart
                        return CaseOut::discard("random-descriptor-collision");
                    }
                    pipes.push((rfd, wfd, VecDeque::new()));
                }
                Op::Write { pipe, n: len, seed } => {
                    let pi = pipe % pipes.len();
                    let data = crate::mach::fill(*seed, crate::native::ArenaKind::Ro, *len as usize);
                    ax.mem_write_bytes(buf, &data).unwrap();
                    let (r, ev) = sys(&mut ax, 1, pipes[pi].1, buf, *len);
                    match r {
                        Api::Ok(k) => {
                            if k > *len || (*len > 0 && k == 0) {
                                fail(&mut out, "write|bad-count", format!("{}: write of {} bytes returned {}", desc, len, k));
                                return out;
                            }
                            pipes[pi].2.extend(data[..k as usize].iter());
                        }
                        other => {
                            fail(&mut out, &format!("write|{}", if let Api::Panic(p) = &other { p.signature() } else { "failed".into() }), format!("{}: write on the write end answered {}", desc, other.short()));
                            return out;
                        }
                    }
                    if !ev.is_empty() {
                        fail(&mut out, "write|pipe-call-reached-user-hook", format!("{}: a write on a pipe end was passed on to the user's syscall hook", desc));
                        return out;
                    }
                    if let Some(l) = last_pipe_used {
                        if l != pi {
                            interleaved = true;
                        }
                    }
                    last_pipe_used = Some(pi);
                }
                Op::WrongEnd { pipe, write, n: len } => {
                    let pi = pipe % pipes.len();
                    classes.push("wrong-end-call");
                    ax.mem_write_bytes(buf, &vec![0x77; *len as usize + 16]).unwrap();
                    let fd = if *write { pipes[pi].0 } else { pipes[pi].1 };
                    let (r, _ev) = sys(&mut ax, if *write { 1 } else { 0 }, fd, buf, *len);
                    if let Api::Panic(p) = &r {
                        fail(&mut out, &format!("wrong-end|{}", p.signature()), format!("{} crashed: {}", desc, r.short()));
                        return out;
                    }
                    // whatever the answer: the bytes of a write on a *read* end were not written to the write end and must
                    // never show up in the stream; a read on a *write* end must not consume the stream (checked by the
                    // later reads and the final drain against the unchanged model)
                }
                Op::Read { pipe, n: want, bad_buf } if *bad_buf != 0 => {
                    // destination that cannot take the data: past the end of its area, unmapped, or the code area
                    let pi = pipe % pipes.len();
                    classes.push("read-into-awkward-buffer");
                    let b = match bad_buf {
                        1 => DATA + DLEN - 2,
                        2 => 0x7777_0000,
                        _ => CODE_AT,
                    };
                    let avail = pipes[pi].2.len() as u64;
                    let (r, _ev) = sys(&mut ax, 0, pipes[pi].0, b, *want);
                    match r {
                        Api::Panic(p) => {
                            fail(&mut out, &format!("read|{}", p.signature()), format!("{} crashed: {} at {}", desc, p.message, p.location));
                            return out;
                        }
                        Api::Err(_) => {} // refused: nothing was delivered, so nothing may be consumed (the model keeps everything)
                        Api::Ok(k) => {
                            // delivered k bytes (possible when the data fits before the end of the area): consume them
                            if k > *want || k > avail {
                                fail(&mut out, "read|returned-more-than-requested-or-available", format!("{}: returned {}", desc, k));
                                return out;
                            }
                            pipes[pi].2.drain(..k as usize);
                        }
                    }
                }
                Op::Read { pipe, n: want, .. } => {
                    let pi = pipe % pipes.len();
                    ax.mem_write_bytes(buf, &vec![0xaa; *want as usize + 16]).unwrap();
                    let (r, ev) = sys(&mut ax, 0, pipes[pi].0, buf, *want);
                    let avail = pipes[pi].2.len() as u64;
                    match r {
                        Api::Ok(k) => {
                            if k > *want || k > avail {
                                fail(&mut out, "read|returned-more-than-requested-or-available", format!("{}: read of {} bytes with {} available returned {}", desc, want, avail, k));
                                return out;
                            }
                            if k == 0 && *want > 0 && avail > 0 {
                                fail(&mut out, "read|nothing-received-although-data-is-available", format!("{}: read of {} bytes with {} available returned 0", desc, want, avail));
                                return out;
                            }
                            let got = ax.mem_read_bytes(buf, *want + 16).unwrap();
                            let expect: Vec<u8> = pipes[pi].2.drain(..k as usize).collect();
                            if got[..k as usize] != expect[..] {
                                let off = got.iter().zip(expect.iter()).position(|(a, b)| a != b).unwrap_or(0);
                                fail(&mut out, "read|wrong-bytes", format!("{}: byte {} of the {} received is {:#x}, the stream holds {:#x}", desc, off, k, got[off], expect[off]));
                                return out;
                            }
                            if got[k as usize..].iter().any(|b| *b != 0xaa) {
                                fail(&mut out, "read|buffer-beyond-count-modified", format!("{}: the buffer was modified beyond the {} bytes reported", desc, k));
                                return out;
                            }
                            if k < avail && k > 0 {
                                last_read_partial = Some(pi);
                            } else if last_read_partial == Some(pi) && k > 0 {
                                partial_then_read = true;
                            }
                            classes.push(if k == 0 { "read-empty" } else if k < *want { "short-read" } else { "full-read" });
                        }
                        other => {
                            fail(&mut out, &format!("read|{}", if let Api::Panic(p) = &other { p.signature() } else { "failed".into() }), format!("{}: read on the read end answered {}", desc, other.short()));
                            return out;
                        }
                    }
                    if !ev.is_empty() {
                        fail(&mut out, "read|pipe-call-reached-user-hook", format!("{}: a read on a pipe end was passed on to the user's syscall hook", desc));
                        return out;
                    }
                    if let Some(l) = last_pipe_used {
                        if l != pi {
                            interleaved = true;
                        }
                    }
                    last_pipe_used = Some(pi);
                }
                Op::Foreign { write, fd, n: len, bad_buf, alias } => {
                    let before = ax.mem_read_bytes(DATA, DLEN).unwrap();
                    // the buffer of a call that is not ours is none of the pipe handler's business
                    let buf = match bad_buf {
                        1 => DATA + DLEN - 4,   // runs past the end of its area
                        2 => 0x7777_0000,       // unmapped
                        3 => 0,                 // NULL
                        _ => buf,
                    };
                    if *bad_buf != 0 {
                        classes.push("foreign-descriptor-awkward-buffer");
                    }
                    // "not a pipe end" is decided when the call is made: whatever numbering the handler uses,
                    // a candidate that happens to be a pipe end right now is replaced by the next free number
                    let is_end = |f: u64| pipes.iter().any(|p| p.0 == f || p.1 == f);
                    let aliased = if *alias > 0 && !pipes.is_empty() {
                        let ends: Vec<u64> = pipes.iter().flat_map(|p| [p.0, p.1]).collect();
                        let e = ends[*fd as usize % ends.len()];
                        classes.push("foreign-descriptor-aliasing-a-pipe-end-in-its-low-half");
                        Some(e | if *alias == 3 { 1 << 63 } else { (*alias as u64) << 32 })
                    } else {
                        None
                    };
                    let fd = &aliased.unwrap_or_else(|| (*fd..*fd + 64).find(|f| !is_end(*f)).unwrap_or(*fd));
                    let (r, ev) = sys(&mut ax, if *write { 1 } else { 0 }, *fd, buf, *len);
                    classes.push("foreign-descriptor");
                    if let Api::Panic(p) = &r {
                        fail(&mut out, &format!("foreign|{}", p.signature()), format!("{}: crashed: {}", desc, r.short()));
                        return out;
                    }
                    if ev.len() != 1 {
                        fail(&mut out, "foreign|not-left-for-other-hooks", format!("{}: a {} on descriptor {} (not a pipe end) reached the user's hook {} times (step answered {})", desc, if *write { "write" } else { "read" }, fd, ev.len(), r.short()));
                        return out;
                    }
                    let e = &ev[0];
                    // register order of mach::SR64: rax rcx rdx rbx rsp rbp rsi rdi
                    if e.gpr[0] != if *write { 1 } else { 0 } || e.gpr[7] != *fd || e.gpr[6] != buf || e.gpr[2] != *len {
                        fail(&mut out, "foreign|registers-not-intact", format!("{}: the user's hook saw rax={:#x} rdi={:#x} rsi={:#x} rdx={:#x}", desc, e.gpr[0], e.gpr[7], e.gpr[6], e.gpr[2]));
                        return out;
                    }
                    if ax.mem_read_bytes(DATA, DLEN).unwrap() != before {
                        fail(&mut out, "foreign|memory-modified", format!("{}: memory changed although the call is not the pipe handler's", desc));
                        return out;
                    }
                }
            }
        }
        // drain: no loss, no duplication, pipes do not mix
        let dead = a_call_failed.get() && ax.verif_finished();
        for pi in 0..(if dead { 0 } else { pipes.len() }) {
            let mut guard = 0;
            while !pipes[pi].2.is_empty() && guard < 400 {
                guard += 1;
                let want = 256u64;
                ax.mem_write_bytes(buf, &vec![0xaa; want as usize]).unwrap();
                let (r, _) = sys(&mut ax, 0, pipes[pi].0, buf, want);
                match r {
                    Api::Ok(k) if k > 0 && k <= want && k as usize <= pipes[pi].2.len() => {
                        let got = ax.mem_read_bytes(buf, k).unwrap();
                        let expect: Vec<u8> = pipes[pi].2.drain(..k as usize).collect();
                        if got != expect {
                            fail(&mut out, "drain|wrong-bytes", format!("final drain of pipe {}: stream content differs from what was written", pi));
                            return out;
                        }
                    }
                    other => {
                        fail(&mut out, "drain|lost-or-extra-data", format!("final drain of pipe {}: {} bytes should still be in the stream, read answered {}", pi, pipes[pi].2.len(), other.short()));
                        return out;
                    }
                }
            }
            // and now it must be empty
            let (r, _) = sys(&mut ax, 0, pipes[pi].0, buf, 8);
            if !matches!(r, Api::Ok(0)) {
                fail(&mut out, "drain|duplicated-data", format!("pipe {} is drained according to the model but a read answered {}", pi, r.short()));
                return out;
            }
        }
        out.nontrivial = partial_then_read || (interleaved && pipes.len() >= 2);
        if partial_then_read {
            classes.push("write-partial-read-read");
        }
        if interleaved && pipes.len() >= 2 {
            classes.push("two-pipes-interleaved");
        }
        classes.sort();
        classes.dedup();
        for cl in classes {
            out = out.class(cl);
        }
        out
    }

    fn rule(&self) -> String {
        "cases: histories of 1–39 syscalls over pipe(), write(fd,buf,n), read(fd,buf,n) on 1–4 pipes and on non-pipe descriptors ({0,1,2,3,5,100,1023} or the next number that is not a live pipe end; 20 % a live pipe end plus k·2^32 or 2^63) (40 % of them with a buffer that runs past its area, is unmapped or NULL), n ∈ {0,1,<8,300,uniform ≤300}, 15 % of the pipe reads into a destination that cannot take the data (a refused read must not consume), 5 % calls on the wrong end of a pipe; with a user SYSCALL hook registered after handle_syscalls([Pipe]); one VecDeque per pipe is the model: count ≤ requested and ≤ available, ≥1 when both positive, exactly the next bytes, buffer beyond the count untouched, pipe calls never reach the user hook, foreign calls reach it exactly once with registers intact, every pipe is drained at the end and compared; non-trivial = write→partial read→read on one pipe, or two pipes interleaved; distinct by hash(history)".into()
    }
    fn post_check(&mut self, hist: &std::collections::BTreeMap<String, u64>, _tier: Tier) -> Vec<(String, String)> {
        // at most 4 pipes = 8 descriptors out of 65 536 numbers: a random collision hits < 0.05 % of the
        // attempts; 2 % is 40× that
        let att = hist.get("pipe-create-beside-existing-pipes").copied().unwrap_or(0);
        let refused = hist.get("pipe-create-refused-beside-existing-pipes").copied().unwrap_or(0);
        if att >= 1000 && refused * 50 > att {
            return vec![("C14|pipe|creation-refused-far-more-often-than-random-collisions".into(), format!("pipe() beside existing pipes was refused in {} of {} histories; random descriptor collisions explain < 0.05 %", refused, att))];
        }
        vec![]
    }
    fn required_classes(&self, _tier: Tier) -> Vec<String> {
        ["write-partial-read-read", "two-pipes-interleaved", "foreign-descriptor", "foreign-descriptor-awkward-buffer", "short-read", "full-read", "read-empty", "read-into-awkward-buffer", "wrong-end-call", "foreign-descriptor-aliasing-a-pipe-end-in-its-low-half"].iter().map(|s| s.to_string()).collect()
    }
    fn assumptions(&self) -> Vec<String> {
        vec!["descriptor values are never compared; the 16 bytes written by pipe() are decoded as two u64, or two i32 if the upper half was left untouched".into(), "a pipe() refused while other pipes are open (the handler draws 16-bit descriptor numbers at random and refuses a collision) ends the history without a verdict; such refusals may not exceed 2 % of the histories that create a pipe beside existing ones (random collisions explain < 0.05 %); no error text is read".into(), "calls on the wrong end of a pipe get no verdict of their own (the statement does not define them); they are generated only to check that they neither inject bytes into a stream nor consume from it".into()]
    }
}
