//! C01–C06: differential properties on the native single-step engine.
use crate::diff::*;
use crate::insn::{self, Class, GenOpts};
use crate::mach::NCase;
use crate::native::*;
use crate::sup::{CaseOut, Property, Tier, Verdict};
use crate::tape::{Shape, Tape, TapeVal};
use crate::util::Fnv;
use iced_x86::*;
use serde_json::{json, Value};
use std::collections::BTreeMap;

#[derive(Clone, Copy, Debug, PartialEq, Eq)]
pub enum Which {
    C01,
    C02,
    C03,
    C04,
    C05,
    C06,
}

pub struct NatProp {
    pub which: Which,
    eng: Option<Engine>,
    opts: Option<GenOpts>,
}

impl NatProp {
    pub fn new(which: Which) -> NatProp {
        NatProp { which, eng: None, opts: None }
    }
    fn eng(&mut self) -> &mut Engine {
        self.eng.as_mut().expect("setup not called")
    }
}

/// The stack pointer is at the machine's stack top (0: these machines never call init_stack), in the
/// emulator's convention (RSP + 8) or the hardware's (RSP): only there may a RET end the run (C11).
#[allow(dead_code)]
fn top_level_rsp(c: &NCase) -> bool {
    c.gpr[4] == 0 || c.gpr[4].wrapping_add(8) == 0
}
/// These machines never call init_stack, so no RET of theirs is a top-level return: a RET that ends the run
/// is compared with the CPU like any other outcome (it used to be discarded while RSP + 8 wrapping to the
/// unset stack top, 0, was taken for the emulator's convention; that was defect #34 of the census).
const NEVER_TOP_LEVEL: bool = false;

/// The machine could not be put into the case's state: inconclusive, never a verdict on the emulator.
pub fn harness_fault(d: &Diff) -> Option<CaseOut> {
    match &d.emu {
        Emu::Err(e) if e.starts_with("HARNESS:") => Some(CaseOut::fail("HARNESS-FAULT|machine-setup".into(), e.clone())),
        _ => None,
    }
}

pub fn case_fp(c: &NCase) -> u64 {
    let mut h = Fnv::new();
    h.str(&c.code).u64(c.rip).u64(c.rflags).u64(c.mem_seed).u64(c.fs).u64(c.gs);
    for g in c.gpr.iter() {
        h.u64(*g);
    }
    h.u64(c.xmm[0][0]);
    for (a, b) in &c.patches {
        h.u64(*a).str(b);
    }
    h.str(&c.pre);
    h.finish()
}

fn operand_uses_rsp(ins: &Instruction) -> bool {
    for i in 0..ins.op_count() {
        match ins.op_kind(i) {
            OpKind::Register => {
                if ins.op_register(i).full_register() == Register::RSP {
                    return true;
                }
            }
            OpKind::Memory => {
                if ins.memory_base().full_register() == Register::RSP || ins.memory_index().full_register() == Register::RSP {
                    return true;
                }
            }
            _ => {}
        }
    }
    false
}

fn is_flag_preserving(ins: &Instruction) -> bool {
    ins.rflags_modified() == 0
}

impl Property for NatProp {
    type Case = NCase;

    fn id(&self) -> &'static str {
        match self.which {
            Which::C01 => "C01",
            Which::C02 => "C02",
            Which::C03 => "C03",
            Which::C04 => "C04",
            Which::C05 => "C05",
            Which::C06 => "C06",
        }
    }

    fn shape(&self) -> Shape {
        Shape::flat(112)
    }

    fn cases(&self, tier: Tier) -> u64 {
        match (self.which, tier) {
            (Which::C01, Tier::Quick) => 2_400_000,
            (Which::C01, Tier::Thorough) => 40_000_000,
            (Which::C02, Tier::Quick) => 2_400_000,
            (Which::C02, Tier::Thorough) => 40_000_000,
            (Which::C03, Tier::Quick) => 2_000_000,
            (Which::C03, Tier::Thorough) => 40_000_000,
            (Which::C04, Tier::Quick) => 600_000,
            (Which::C04, Tier::Thorough) => 12_000_000,
            (Which::C05, Tier::Quick) => 3_000_000,
            (Which::C05, Tier::Thorough) => 40_000_000,
            (Which::C06, Tier::Quick) => 3_000_000,
            (Which::C06, Tier::Thorough) => 40_000_000,
        }
    }

    fn setup(&mut self) {
        let eng = unsafe { Engine::new() };
        let floor = eng.floor.clone();
        let in_floor = |f: &insn::Form| floor.contains(&f.name);
        let opts = match self.which {
            Which::C01 => GenOpts::benign(eng.form_indices(|f| (f.class == Class::Data || f.code == Code::Cpuid) && in_floor(f))),
            Which::C02 => {
                let mut o = GenOpts::benign(eng.form_indices(|f| f.class != Class::Os && in_floor(f) && !insn::vendor_divergent(f.code)));
                o.mem16 = 5;
                o
            }
            Which::C03 => {
                let mut o = GenOpts::benign(eng.form_indices(|f| matches!(f.class, Class::Branch | Class::CallRet) && in_floor(f) && !insn::vendor_divergent(f.code)));
                o.mutate16 = 0;
                o
            }
            Which::C04 => {
                let mut o = GenOpts::benign(eng.form_indices(|f| matches!(f.class, Class::Stack | Class::CallRet) && in_floor(f) && !insn::vendor_divergent(f.code)));
                o.mutate16 = 0;
                o
            }
            Which::C05 => {
                let mut o = GenOpts::benign(eng.form_indices(|f| {
                    in_floor(f)
                        && matches!(f.code.mnemonic(), Mnemonic::Lea | Mnemonic::Mov | Mnemonic::Movzx | Mnemonic::Movsxd | Mnemonic::Movups | Mnemonic::Movd)
                        && (0..f.code.op_code().op_count()).any(|i| {
                            use OpCodeOperandKind as K;
                            matches!(f.code.op_code().op_kind(i), K::mem | K::mem_offs | K::r8_or_mem | K::r16_or_mem | K::r32_or_mem | K::r64_or_mem | K::xmm_or_mem)
                        })
                }));
                o.mem16 = 16;
                o.aim_w = [40, 6, 2, 2, 6, 6, 4, 1, 1];
                o.allow_fs = true;
                o.mutate16 = 1;
                o.raw_modrm16 = 6;
                o
            }
            Which::C06 => GenOpts::faulty(eng.form_indices(|f| f.class != Class::Os && in_floor(f) && !insn::vendor_divergent(f.code))),
        };
        assert!(!opts.forms.is_empty(), "no forms selected for {:?} (floor list missing?)", self.which);
        self.opts = Some(opts);
        self.eng = Some(eng);
    }

    fn fixed_cases(&mut self, tier: Tier) -> Vec<NCase> {
        let mut v = vec![];
        let mk = |ins: Instruction, gpr: [u64; 16], rflags: u64, note: &str| -> Option<NCase> {
            let rip = CODE_BASE + 0x200;
            let mut e = Encoder::new(64);
            e.encode(&ins, rip).ok()?;
            Some(NCase { code: crate::util::hex(&e.take_buffer()), rip, gpr, rflags, xmm: [[0; 2]; 16], fs: 0, gs: 0, mem_seed: 7, patches: vec![], note: note.into(), layout: 0, steps: 0, pre: String::new() })
        };
        match self.which {
            Which::C02 => {
                // every shift form × all 256 counts × operand patterns × two incoming flag states (exhaustive in the count)
                let vals: [u64; 4] = [0x8000_0000_8000_8081, 0x7fff_ffff_7fff_7f7e, u64::MAX, 1];
                let forms = [
                    (Code::Shl_rm8_imm8, Register::BL, true), (Code::Shl_rm16_imm8, Register::BX, true), (Code::Shl_rm32_imm8, Register::EBX, true), (Code::Shl_rm64_imm8, Register::RBX, true),
                    (Code::Shr_rm8_imm8, Register::BL, true), (Code::Shr_rm16_imm8, Register::BX, true), (Code::Shr_rm32_imm8, Register::EBX, true), (Code::Shr_rm64_imm8, Register::RBX, true),
                    (Code::Shl_rm8_CL, Register::BL, false), (Code::Shl_rm16_CL, Register::BX, false), (Code::Shl_rm32_CL, Register::EBX, false), (Code::Shl_rm64_CL, Register::RBX, false),
                    (Code::Shr_rm8_CL, Register::BL, false), (Code::Shr_rm16_CL, Register::BX, false), (Code::Shr_rm32_CL, Register::EBX, false), (Code::Shr_rm64_CL, Register::RBX, false),
                ];
                let nvals = if tier == Tier::Thorough { 4 } else { 2 };
                for (code, reg, imm) in forms {
                    for count in 0..256u32 {
                        for val in vals.iter().take(nvals) {
                            for fl in [0u64, 0x8d5] {
                                let ins = if imm { Instruction::with2(code, reg, count as i32) } else { Instruction::with2(code, reg, Register::CL) };
                                let mut gpr = [0x1111_1111_1111_1111u64; 16];
                                gpr[3] = *val;
                                gpr[1] = 0xabcd_ef00 | count as u64;
                                if let Some(c) = ins.ok().and_then(|i| mk(i, gpr, fl, "shift-count-sweep")) {
                                    v.push(c);
                                }
                            }
                        }
                    }
                }
            }
            Which::C03 => {
                // every Jcc rel8/rel32 form × all 64 CF/PF/AF/ZF/SF/OF states (exhaustive in the condition)
                for (k, code) in crate::prog::JCC8.iter().chain(crate::prog::JCC32.iter()).enumerate() {
                    for bits in 0..64u64 {
                        let mut fl = 0u64;
                        for (i, b) in [0u64, 2, 4, 6, 7, 11].iter().enumerate() {
                            if bits >> i & 1 == 1 {
                                fl |= 1 << b;
                            }
                        }
                        let target = if k % 2 == 0 { CODE_BASE + 0x200 + 0x40 } else { CODE_BASE + 0x200 - 0x30 };
                        if let Some(c) = Instruction::with_branch(*code, target).ok().and_then(|i| mk(i, [0x2222; 16], fl, "jcc-flag-sweep")) {
                            v.push(c);
                        }
                    }
                }
                for rcx in [0u64, 1, 1 << 32, u64::MAX, 0xffff_ffff] {
                    for code in [Code::Jrcxz_rel8_64, Code::Jecxz_rel8_64] {
                        let mut gpr = [0x3333u64; 16];
                        gpr[1] = rcx;
                        if let Some(c) = Instruction::with_branch(code, CODE_BASE + 0x200 + 0x20).ok().and_then(|i| mk(i, gpr, 0, "jrcxz-sweep")) {
                            v.push(c);
                        }
                    }
                }
            }
            _ => {}
        }
        v
    }

    fn decode(&mut self, tape: &TapeVal) -> NCase {
        let mut t = Tape::new(&tape[0]);
        let opts = self.opts.clone().unwrap();
        let eng = self.eng();
        let mut c = insn::gen_case(&mut t, &eng.forms, &opts).unwrap_or(NCase {
            code: String::new(),
            rip: CODE_BASE + 0x100,
            gpr: [0; 16],
            rflags: 0,
            xmm: [[0; 2]; 16],
            fs: 0,
            gs: 0,
            mem_seed: 0,
            patches: vec![],
            note: "unencodable".into(),
            layout: 0,
            steps: 0, pre: String::new()
        });
        if self.which == Which::C04 {
            let mut t4 = Tape::new(&tape[0][100..]);
            if t4.below(4) == 0 {
                // a short program on the slot grid: stack instructions mixed with RSP-relative accesses
                let n = 3 + t4.below(10) as usize;
                let o = crate::prog::ProgOpts::stacky();
                let mut rows = Tape::new(&tape[0][..100]);
                let prog: Vec<crate::prog::PI> = (0..n).map(|i| crate::prog::gen_slot(&mut rows, i, n, &o)).collect();
                let base = CODE_BASE + 0x100;
                let img = crate::prog::assemble(&prog, base);
                let mut gpr = [0u64; 16];
                for g in gpr.iter_mut() {
                    *g = rows.val64();
                }
                // RSP in the middle of the stack arena; the cells around it hold slot addresses so that
                // unmatched returns land in the program
                let rsp = STK_BASE + 0x800 + 8 * t4.below(16);
                gpr[4] = rsp;
                let mut patches = vec![];
                for k in 0..12u64 {
                    let slot = crate::prog::slot_addr(base, t4.below(n as u64) as usize);
                    patches.push((rsp - 16 + 8 * k, crate::util::hex(&slot.to_le_bytes())));
                }
                return NCase { code: crate::util::hex(&img), rip: base, gpr, rflags: rows.raw() & 0x8d5, xmm: [[0; 2]; 16], fs: 0, gs: 0, mem_seed: rows.raw(), patches, note: format!("program {:?}", prog), layout: 0, steps: 24, pre: String::new() };
            }
            // single instruction with an RSP-based memory operand: the slot bias moves the explicit operand
            // by one operand size on the biased CPU run, so both candidate cells get the same contents
            let (ins, valid) = self.eng().decode(&c);
            if valid && (0..ins.op_count()).any(|i| ins.op_kind(i) == OpKind::Memory) && ins.memory_base().full_register() == Register::RSP && ins.memory_index() == Register::None {
                let size = ins.stack_pointer_increment().unsigned_abs() as u64;
                let acc = self.eng().accesses(&ins, &c);
                if let Some((a, sz, _, true)) = acc.iter().find(|x| x.3).copied() {
                    if size > 0 && sz == size {
                        let v = crate::util::mix2(c.mem_seed, a) & 0x0000_0000_0fff_fff8 | CODE_BASE;
                        let bytes = v.to_le_bytes()[..size as usize].to_vec();
                        c.patches.push((a, crate::util::hex(&bytes)));
                        c.patches.push((a.wrapping_add(size), crate::util::hex(&bytes)));
                    }
                }
            }
        }
        if self.which == Which::C03 {
            // keep RSP well inside the stack and make the return address independent of the
            // slot convention (which is C04's subject): same value in both candidate slots
            let (ins, valid) = self.eng().decode(&c);
            if valid && matches!(ins.mnemonic(), Mnemonic::Ret | Mnemonic::Call) && !operand_uses_rsp(&ins) {
                c.gpr[4] = STK_BASE + 0x400 + (c.gpr[4] & 0x3f8);
                if ins.mnemonic() == Mnemonic::Ret {
                    let tgt = if let Some((_, h)) = c.patches.first() { h.clone() } else { crate::util::hex(&(CODE_BASE + (c.mem_seed & 0xff8)).to_le_bytes()) };
                    c.patches = vec![(c.gpr[4], tgt.clone()), (c.gpr[4] + 8, tgt)];
                }
            }
        }
        // 1/8 of the cases: the emulator has already executed a few instructions on this machine
        // (unmatched returns, nested calls, repeated jumps, other bytes at this very address); registers,
        // flags and arenas are reset to the case's afterwards, so the CPU comparison is unchanged. What an
        // instruction does may not depend on bookkeeping left behind by earlier ones.
        let mut tp = Tape::new(&tape[0][109..]);
        if tp.below(8) == 0 {
            let n = 1 + tp.below(4);
            c.pre = (0..n).map(|_| tp.pick(&['r', 'r', 'c', 'J', 'j', 'x', 'x'])).collect();
        }
        c
    }

    fn render(&mut self, case: &NCase) -> Value {
        self.eng().render(case)
    }

    fn exec(&mut self, c: &NCase) -> CaseOut {
        if c.code.is_empty() {
            return CaseOut::discard("unencodable");
        }
        let which = self.which;
        if which == Which::C04 {
            return self.exec_c04(c);
        }
        let fp = case_fp(c);
        let fs_case = {
            let (ins, valid) = self.eng().decode(c);
            valid && (ins.memory_segment() == Register::FS) && (0..ins.op_count()).any(|i| ins.op_kind(i) == OpKind::Memory)
        };
        if which == Which::C05 && fs_case {
            return self.exec_c05_fs(c);
        }
        let d = self.eng().run(c, true);
        if let Some(hf) = harness_fault(&d) {
            return hf;
        }
        if !d.valid {
            return CaseOut::discard("invalid-encoding");
        }
        let code = format!("{:?}", d.ins.code());
        let in_floor = self.eng().floor.contains(&code);
        let mut out = CaseOut::pass(false, fp).class(format!("form:{}", code));
        if !c.pre.is_empty() {
            out = out.class("after-prelude");
        }
        if which == Which::C01 && d.ins.code() == Code::Cpuid {
            // host-specific payload: not compared with this CPU. What the architecture fixes is the shape:
            // EAX EBX ECX EDX are written as 32-bit values and nothing else changes.
            out.nontrivial = true;
            out = out.class("cpuid-shape").class("ok:Cpuid");
            let pre = c.regs();
            let problem: Option<String> = match (&d.emu, &d.emu_regs) {
                (Emu::Ok(_), Some(er)) => {
                    if [0usize, 1, 2, 3].iter().any(|i| er.gpr[*i] >> 32 != 0) {
                        Some("EAX/EBX/ECX/EDX not written as 32-bit values (upper halves not zero)".into())
                    } else if (4..16).any(|i| er.gpr[i] != pre.gpr[i]) || er.xmm != pre.xmm {
                        Some("a register other than RAX RBX RCX RDX changed".into())
                    } else if er.rip != d.ins.next_ip() {
                        Some(format!("rip {:#x}, next instruction {:#x}", er.rip, d.ins.next_ip()))
                    } else if (er.rflags ^ pre.rflags) & ALL_FLAGS != 0 {
                        Some("flags changed".into())
                    } else if let Some(a) = d.emu_mem_changed {
                        Some(format!("memory changed at {:#x}", a))
                    } else {
                        d.mism.iter().find(|(c, _)| matches!(c, Comp::Extra(_))).map(|(_, t)| t.clone())
                    }
                }
                (Emu::Err(e), _) => Some(format!("step failed: {}", emu_err_first_line(e))),
                (Emu::Panic(p), _) => Some(format!("step crashed: {} at {}", p.message, p.location)),
                _ => Some("no result".into()),
            };
            if let Some(pb) = problem {
                out.verdict = Verdict::Fail { sig: "C01|Cpuid|shape".into(), msg: format!("cpuid [{}]: {}", c.code, pb) };
            }
            return out;
        }
        if let Some(r) = d.skip_native {
            return CaseOut::discard(&format!("native-skipped:{}", r));
        }
        if !in_floor {
            return CaseOut::discard("form-not-in-floor");
        }
        let n = d.native.as_ref().unwrap();
        if noncanonical_transfer(&d) {
            return CaseOut::discard("non-canonical-branch-target (vendor-specific fault point)");
        }
        if d.ins.mnemonic() == Mnemonic::Ret && matches!(d.emu, Emu::Ok(false)) && NEVER_TOP_LEVEL {
            // RSP + 8 equals the machine's stack_top (0 here: no init_stack): the emulator's
            // "top-level RET finishes the run" convention, which is C11's subject
            return CaseOut::discard("top-level-ret-finish (C11)");
        }
        if let Some(known) = idiv64_deviation(c, &d).filter(|_| matches!(which, Which::C01 | Which::C06)) {
            // KF-C01-1: the whole outcome (registers or error) equals the zero-extended-divisor model
            let mut o = CaseOut::pass(true, fp).class(format!("form:{}", code)).class("deviation:idiv64-unsigned-divisor");
            if known {
                o.verdict = Verdict::Known("KF-C01-1".into());
                return o;
            }
        }
        let has_mem = (0..d.ins.op_count()).any(|i| d.ins.op_kind(i) == OpKind::Memory);
        out = out.class(if has_mem { "operand:mem" } else { "operand:reg" });
        out = out.class(if n.completed() { "cpu:completes" } else { "cpu:faults" });
        let detail = |d: &Diff, what: &str| -> String {
            format!(
                "{}\n  instruction: {} [{}] ({:?}) at {:#x}\n  emulator: {}\n  cpu: {}\n  note: {}",
                what,
                d.ins,
                c.code,
                d.ins.code(),
                c.rip,
                match &d.emu {
                    Emu::Ok(b) => format!("Ok({})", b),
                    Emu::Err(e) => format!("Err({})", emu_err_first_line(e)),
                    Emu::Panic(p) => format!("PANIC {} at {}", p.message, p.location),
                },
                match &d.native {
                    Some(n) if n.completed() => "completed".to_string(),
                    Some(n) => format!("fault signal {} si_code {} si_addr {:#x}", n.signal, n.si_code, n.si_addr),
                    None => "skipped".into(),
                },
                c.note
            )
        };

        match which {
            Which::C06 => {
                // stack instructions: the fault verdict of the implicit stack access is shifted by
                // KF-C04-1; accept exactly what the slot-bias model predicts, nothing else
                let verdict_differs = matches!((&d.emu, n.completed()), (Emu::Ok(_), false) | (Emu::Err(_), true));
                let mem_via_rsp = (0..d.ins.op_count()).any(|i| d.ins.op_kind(i) == OpKind::Memory) && (d.ins.memory_base().full_register() == Register::RSP || d.ins.memory_index().full_register() == Register::RSP);
                if verdict_differs && matches!(insn::class_of(d.ins.mnemonic()), Class::Stack | Class::CallRet) && mem_via_rsp {
                    return CaseOut::discard("rsp-based-memory-operand-interacts-with-slot-bias");
                }
                if verdict_differs && matches!(insn::class_of(d.ins.mnemonic()), Class::Stack | Class::CallRet) {
                    if let Some(nb) = self.biased_native(c, &d.ins) {
                        if !(noncanonical_rip(nb.regs.rip) && !nb.completed()) && matches!((&d.emu, nb.completed()), (Emu::Ok(_), true) | (Emu::Err(_), false)) {
                            let mut o = out.class("deviation:stack-slot-bias-verdict");
                            o.nontrivial = true;
                            o.verdict = Verdict::Known("KF-C04-1".into());
                            return o;
                        }
                    }
                }
                out.nontrivial = !n.completed() || d.accesses.iter().any(|(a, s, _, _)| near_edge(*a, *s)) || matches!(d.ins.mnemonic(), Mnemonic::Div | Mnemonic::Idiv);
                match (&d.emu, n.completed()) {
                    (Emu::Ok(_), true) => out.class("verdict:both-complete"),
                    (Emu::Err(_), false) => out.class("verdict:both-refuse"),
                    (Emu::Ok(_), false) => {
                        let sig = format!("C06|{}|ok-vs-fault:sig{}", code, n.signal);
                        CaseOut { verdict: Verdict::Fail { sig, msg: detail(&d, "the CPU faults but the step returned Ok") }, ..out }
                    }
                    (Emu::Err(e), true) => {
                        let sig = format!("C06|{}|err-vs-ok:{}", code, norm_err(e));
                        CaseOut { verdict: Verdict::Fail { sig, msg: detail(&d, "the CPU completes but the step returned Err") }, ..out }
                    }
                    (Emu::Panic(p), _) => {
                        let sig = format!("C06|{}|{}", code, p.signature());
                        CaseOut { verdict: Verdict::Fail { sig, msg: detail(&d, "the step crashed (panic)") }, ..out }
                    }
                }
            }
            _ => {
                // C01 C02 C03 C05: both sides must have completed, otherwise it is C06's business
                if !n.completed() {
                    if which == Which::C05 && matches!(d.emu, Emu::Ok(_)) && has_mem {
                        // the CPU's address is unmapped but the emulator's access went through: it computed another address
                        let sig = format!("C05|{}|ok-vs-fault", code);
                        return CaseOut { verdict: Verdict::Fail { sig, msg: detail(&d, "the CPU faults on this operand's address but the emulator's access succeeded (address mismatch?)") }, nontrivial: true, ..out };
                    }
                    if which == Which::C01 && matches!(d.emu, Emu::Err(_)) {
                        // the CPU refuses the instruction and changes nothing; so must a refused step
                        // (whether the step fails at all is C06's question)
                        let what = match (&d.err_changed.0, &d.err_changed.1) {
                            (Some(a), _) => Some(("mem", format!("the failed step changed memory at {:#x}", a))),
                            (None, Some(r)) => Some(("reg", format!("the failed step changed a register: {}", r))),
                            _ => None,
                        };
                        if let Some((l, text)) = what {
                            let sig = format!("C01|{}|failed-step-changed-{}", code, l);
                            return CaseOut { verdict: Verdict::Fail { sig, msg: detail(&d, &text) }, nontrivial: true, ..out };
                        }
                        return CaseOut::pass(true, fp).class(format!("form:{}", code)).class("cpu:faults/step-refuses/nothing-changed");
                    }
                    return CaseOut::discard("cpu-faults (C06)");
                }
                match &d.emu {
                    Emu::Ok(_) => {}
                    Emu::Err(_) => {
                        if which == Which::C05 {
                            // a wrong effective address typically shows up as a spurious access error
                            let sig = format!("C05|{}|err-vs-ok", code);
                            return CaseOut { verdict: Verdict::Fail { sig, msg: detail(&d, "the CPU completes the access but the emulator refuses it (address mismatch?)") }, nontrivial: true, ..out };
                        }
                        return CaseOut::discard("emulator-error (C06)");
                    }
                    Emu::Panic(p) => {
                        if which == Which::C05 {
                            let sig = format!("C05|{}|{}", code, p.signature());
                            return CaseOut { verdict: Verdict::Fail { sig, msg: detail(&d, "the emulator crashed computing the operand") }, nontrivial: true, ..out };
                        }
                        return CaseOut::discard("emulator-panic (C06/C19)");
                    }
                }
                out = out.class(format!("ok:{}", code));
                let er = d.emu_regs.unwrap();
                let pre = c.regs();
                for (comp, text) in &d.mism {
                    let label: Option<String> = match (which, comp) {
                        (Which::C01, Comp::Gpr(i)) | (Which::C05, Comp::Gpr(i)) => Some(if d.written_gprs >> i & 1 == 1 { "gpr-dest".into() } else { "gpr-other".into() }),
                        (Which::C01, Comp::Xmm(_)) | (Which::C05, Comp::Xmm(_)) => Some("xmm".into()),
                        (Which::C01, Comp::Mem(_)) | (Which::C05, Comp::Mem(_)) => Some("mem".into()),
                        (Which::C01, Comp::Rip) => Some("rip".into()),
                        (Which::C01, Comp::Extra(s)) => Some(format!("extra:{}", s)),
                        (Which::C02, Comp::Flag(b, stale)) => Some(format!("{}:{}", flag_name(*b), if *stale { "stale" } else { "miscomputed" })),
                        (Which::C03, Comp::Rip) => Some("rip".into()),
                        _ => None,
                    };
                    if let Some(l) = label {
                        let sig = format!("{}|{}|{}", self.id(), code, l);
                        return CaseOut { verdict: Verdict::Fail { sig, msg: detail(&d, text) }, nontrivial: true, ..out };
                    }
                }
                // non-triviality and classes
                match which {
                    Which::C01 => {
                        let changed = (0..16).any(|i| er.gpr[i] != pre.gpr[i]) || (0..16).any(|i| er.xmm[i] != pre.xmm[i]) || d.accesses.iter().any(|(_, _, w, _)| *w);
                        out.nontrivial = changed || matches!(d.ins.mnemonic(), Mnemonic::Cmp | Mnemonic::Test);
                    }
                    Which::C02 => {
                        let m = d.flag_mask;
                        let pres = is_flag_preserving(&d.ins);
                        out.nontrivial = if pres { pre.rflags & ALL_FLAGS != 0 } else { (er.rflags ^ pre.rflags) & m != 0 };
                        out = out.class(if pres { "flags:preserving-form" } else { "flags:modifying-form" });
                        if matches!(d.ins.mnemonic(), Mnemonic::Shl | Mnemonic::Shr) {
                            let w: u32 = match d.ins.op0_kind() {
                                OpKind::Register => d.ins.op0_register().size() as u32 * 8,
                                _ => d.ins.memory_size().size() as u32 * 8,
                            };
                            let raw = match d.ins.op1_kind() {
                                OpKind::Immediate8 => d.ins.immediate8() as u32,
                                OpKind::Register => (pre.gpr[1] & 0xff) as u32,
                                _ => 1,
                            };
                            let cnt = raw & if w == 64 { 63 } else { 31 };
                            out = out.class(if cnt == 0 { "shift:masked-count-0" } else if cnt == 1 { "shift:count-1" } else if cnt >= w { "shift:count>=width" } else { "shift:count-other" });
                        }
                    }
                    Which::C03 => {
                        let taken = er.rip != d.ins.next_ip();
                        out.nontrivial = true;
                        out = out.class(if taken { "branch:taken" } else { "branch:not-taken" });
                        out = out.class(format!("{}:{}", if taken { "taken" } else { "fallthrough" }, code));
                        let mut h = Fnv::new();
                        h.str(&code).u64(pre.rflags & ALL_FLAGS).u64(er.rip.wrapping_sub(c.rip)).u64(pre.gpr[1]);
                        out.fp = h.finish();
                    }
                    Which::C05 => {
                        let comps = (d.ins.memory_base() != Register::None) as u32 + (d.ins.memory_index() != Register::None) as u32 + (d.ins.memory_displacement64() != 0) as u32 + (d.ins.segment_prefix() == Register::GS) as u32;
                        out.nontrivial = comps >= 2;
                        for cl in shape_classes(&d.ins) {
                            out = out.class(cl);
                        }
                        if let Some(i) = c.note.find("raw-modrm ") {
                            // mod / SIB-base class / index class of the byte-level emitter (redundant encodings included)
                            let sh = c.note[i + 10..].split(' ').next().unwrap_or("");
                            let parts: Vec<&str> = sh.split('-').collect();
                            let mut label = String::from("raw:");
                            label.push_str(parts.first().copied().unwrap_or(""));
                            if parts.get(1) == Some(&"sib") {
                                label.push_str("-sib");
                                for p in &parts[2..] {
                                    if *p == "bnone" || *p == "inone" {
                                        label.push('-');
                                        label.push_str(p);
                                    }
                                }
                            }
                            if sh.contains("riprel") {
                                label.push_str("-riprel");
                            }
                            out = out.class(label).class("raw-modrm");
                        }
                    }
                    _ => {}
                }
                out
            }
        }
    }

    fn rule(&self) -> String {
        match self.which {
            Which::C01 => "cases: form-directed random single instructions (every floor form, reg/mem operands, interesting∪uniform register values, all flag inputs) run on the emulator and single-stepped on the host CPU; non-trivial = both complete and a register/XMM/memory byte changes or the form is CMP/TEST; distinct by hash(bytes, registers, flags, memory seed, patches)".into(),
            Which::C02 => "cases: as C01 over all non-OS floor forms; compared flags = CF PF ZF SF OF DF (+AF where architecturally unaffected) minus the flags the SDM leaves undefined for this instruction instance (count-dependent for shifts); non-trivial = a compared flag changes (modifying forms) or an incoming flag is set (preserving forms); distinct by case hash".into(),
            Which::C03 => "cases: every floor Jcc/JMP/CALL/RET/JRCXZ/JECXZ form with random flags, RCX, displacements and indirect targets; RIP after one step vs the CPU's; non-trivial = every compared case; distinct by (form, flags, displacement, RCX)".into(),
            Which::C04 => "cases: every floor PUSH/POP/CALL/RET form × RSP placement × stack contents (incl. RSP itself as operand and RSP-based memory operands), and for 1/4 of the cases slot-grid programs of 3–12 instructions mixing PUSH/POP/CALL/RET (64- and 16-bit, immediates, register-indirect calls) with mov [rsp+d],r / mov r,[rsp+d] / lea / add rsp,imm8, run in lock-step with the CPU for ≤24 steps with the KF-C04-1 bias applied around every stack instruction and all registers, RIP and every arena byte compared after every step; emulator vs CPU directly, and vs the CPU under the KF-C04-1 expected-deviation model (RSP biased by the operand size); non-trivial = RSP or stack bytes change; distinct by case hash".into(),
            Which::C05 => "cases: LEA/MOV/MOVZX/MOVSXD/MOVUPS/MOVD with a memory operand over generated addressing shapes (base, index×scale, disp8/32, RIP-relative, absolute, moffs, GS base natively, FS via the GS twin, 0x67 override); non-trivial = ≥2 address components; distinct by case hash".into(),
            Which::C06 => "cases: all non-OS floor forms with operands steered to area edges, read-only, unmapped and misaligned memory and division boundaries; verdict = (CPU faults ⇔ step is Err) and no panic; non-trivial = CPU faults, or an access within 16 bytes of an area edge, or a division; distinct by case hash".into(),
        }
    }

    fn required_classes(&self, _tier: Tier) -> Vec<String> {
        match self.which {
            Which::C01 => vec!["operand:mem".into(), "operand:reg".into(), "cpuid-shape".into()],
            Which::C02 => vec!["flags:preserving-form".into(), "flags:modifying-form".into(), "shift:masked-count-0".into(), "shift:count-1".into(), "shift:count>=width".into()],
            Which::C03 => vec!["branch:taken".into(), "branch:not-taken".into()],
            Which::C04 => vec!["program".into(), "program:stack+rsp-relative".into(), "deviation:matches-bias-model".into()],
            Which::C05 => vec!["seg:gs".into(), "seg:fs-twin".into(), "addr32".into(), "base:rip".into(), "sib:index".into(), "moffs".into(), "raw:mod0".into(), "raw:mod1".into(), "raw:mod2".into(), "raw:mod0-sib-bnone".into(), "raw:mod1-sib-inone".into(), "raw:mod0-riprel".into()],
            Which::C06 => vec!["verdict:both-complete".into(), "verdict:both-refuse".into()],
        }
    }

    fn assumptions(&self) -> Vec<String> {
        vec![
            "the host CPU (Intel, this sandbox) and Linux signal delivery are the reference; vendor-divergent behaviour is excluded by construction".into(),
            "iced-x86 is trusted for constructing and labelling cases, not for the verdict".into(),
            "the floor list /verif/data/implemented_forms.txt defines which forms count as implemented".into(),
        ]
    }

    fn post_check(&mut self, hist: &BTreeMap<String, u64>, _tier: Tier) -> Vec<(String, String)> {
        let mut out = vec![];
        if self.which == Which::C01 {
            // forms do not shrink: every Data-class floor form must have executed (Ok) at least once
            let (forms, _) = insn::candidate_forms();
            let floor: Vec<String> = insn::load_floor();
            for name in floor {
                let is_data = forms.iter().any(|f| f.name == name && (f.class == Class::Data || f.code == Code::Cpuid));
                if is_data && hist.get(&format!("ok:{}", name)).copied().unwrap_or(0) == 0 {
                    out.push((format!("C01|{}|form-no-longer-executes", name), format!("floor form {} produced no successful step in this run (the set of implemented forms shrank, or the form now always fails)", name)));
                }
            }
        }
        out
    }

    fn extra_coverage(&self, hist: &BTreeMap<String, u64>) -> Value {
        let (forms, ungenerated) = insn::candidate_forms();
        let floor = insn::load_floor();
        let not_in_floor: Vec<&String> = forms.iter().map(|f| &f.name).filter(|n| !floor.contains(n)).collect();
        let forms_hit = hist.keys().filter(|k| k.starts_with("form:")).count();
        json!({
            "forms_exercised": forms_hit,
            "floor_forms": floor.len(),
            "candidate_forms_not_implemented_on_pinned_tree": not_in_floor,
            "forms_not_generated": ungenerated,
        })
    }
}

/// A control transfer whose target is not a canonical address: Intel faults at the branch, AMD at
/// the target, so the native verdict is vendor-specific (DESIGN 2.2). Recognised from the emulator's
/// own landing address, which is only trusted for this exclusion.
fn noncanonical_transfer(d: &Diff) -> bool {
    if !matches!(insn::class_of(d.ins.mnemonic()), Class::Branch | Class::CallRet) {
        return false;
    }
    let n = match &d.native {
        Some(n) => n,
        None => return false,
    };
    if n.completed() {
        return false;
    }
    match (&d.emu, &d.emu_regs) {
        (Emu::Ok(_), Some(r)) => {
            let top = r.rip >> 47;
            top != 0 && top != 0x1ffff
        }
        _ => false,
    }
}

/// KF-C01-1 expected-deviation model: IDIV r/m64 with a divisor whose top bit is set behaves as if
/// the divisor were zero-extended (the repository's own test idiv_rax_rdx_1273656987127188586
/// asserts that result). Returns None when the case is not in the deviation's domain, Some(true)
/// when the emulator's outcome equals the model's, Some(false) otherwise.
fn idiv64_deviation(c: &NCase, d: &Diff) -> Option<bool> {
    if d.ins.code() != Code::Idiv_rm64 {
        return None;
    }
    let divisor: u64 = match d.ins.op0_kind() {
        OpKind::Register => c.gpr[d.ins.op0_register().full_register().number()],
        OpKind::Memory => {
            let (a, _, _, _) = *d.accesses.first()?;
            let images = crate::mach::arena_images(c);
            let ar = arena_of(a)?;
            if a + 8 > ar.base + ar.len as u64 {
                return None;
            }
            let img = &images.iter().find(|(k, _)| *k == ar.kind)?.1;
            let off = (a - ar.base) as usize;
            u64::from_le_bytes(img[off..off + 8].try_into().ok()?)
        }
        _ => return None,
    };
    if divisor >> 63 == 0 {
        return None;
    }
    let dividend = ((c.gpr[2] as u128) << 64 | c.gpr[0] as u128) as i128;
    let dv = divisor as u128 as i128;
    let (q, r) = (dividend.wrapping_div(dv), dividend.wrapping_rem(dv));
    let fits = q >= i64::MIN as i128 && q <= i64::MAX as i128;
    Some(match (&d.emu, &d.emu_regs) {
        (Emu::Ok(_), Some(er)) => {
            fits && er.gpr[0] == q as u64
                && er.gpr[2] == r as u64
                && (0..16).all(|i| i == 0 || i == 2 || er.gpr[i] == c.gpr[i])
                && er.rip == d.ins.next_ip()
        }
        (Emu::Err(_), _) => !fits,
        _ => false,
    })
}

fn noncanonical_rip(rip: u64) -> bool {
    let top = rip >> 47;
    top != 0 && top != 0x1ffff
}

fn near_edge(a: u64, s: u64) -> bool {
    ARENAS.iter().any(|d| {
        let lo = d.base;
        let hi = d.base + d.len as u64;
        let e = a.wrapping_add(s);
        (a < lo + 16 && e + 16 > lo) || (e + 16 > hi && a < hi + 16)
    })
}

fn norm_err(e: &str) -> String {
    let l = emu_err_first_line(e);
    let mut out = String::new();
    let mut prev = false;
    for ch in l.chars() {
        if ch.is_ascii_digit() || (prev && (ch == 'x' || ch.is_ascii_hexdigit())) {
            if !prev {
                out.push('#');
            }
            prev = true;
        } else {
            prev = false;
            out.push(ch);
        }
        if out.len() >= 40 {
            break;
        }
    }
    out
}

fn shape_classes(ins: &Instruction) -> Vec<String> {
    let mut v = vec![];
    let base = ins.memory_base();
    let index = ins.memory_index();
    let is_moffs = (0..ins.op_count()).any(|i| ins.op_code().op_kind(i) == OpCodeOperandKind::mem_offs);
    if is_moffs {
        v.push("moffs".into());
    }
    match base {
        Register::None => v.push("base:none".into()),
        Register::RIP | Register::EIP => v.push("base:rip".into()),
        r if matches!(r.full_register(), Register::RSP | Register::RBP | Register::R12 | Register::R13) => v.push(format!("base:special:{:?}", r.full_register())),
        _ => v.push("base:gpr".into()),
    }
    if index != Register::None {
        v.push("sib:index".into());
        v.push(format!("scale:{}", ins.memory_index_scale()));
        if index.full_register() == Register::R12 {
            v.push("index:r12".into());
        }
    }
    match ins.memory_displ_size() {
        0 => v.push("disp:none".into()),
        1 => v.push("disp:8".into()),
        _ => v.push("disp:32".into()),
    }
    match ins.segment_prefix() {
        Register::GS => v.push("seg:gs".into()),
        Register::FS => v.push("seg:fs".into()),
        Register::None => {}
        _ => v.push("seg:null".into()),
    }
    if base.is_gpr32() || index.is_gpr32() || base == Register::EIP || (is_moffs && ins.memory_displ_size() == 4) {
        v.push("addr32".into());
    }
    v
}

impl NatProp {
    /// C05, FS operands: metamorphic twin — the same instruction with the prefix swapped to GS and
    /// the bases swapped must give the identical emulator outcome (GS is validated against the CPU).
    fn exec_c05_fs(&mut self, c: &NCase) -> CaseOut {
        let fp = case_fp(c);
        let mut bytes = c.code_bytes();
        let (ins, _) = self.eng().decode(c);
        let code = format!("{:?}", ins.code());
        // swap every FS prefix in the run of legacy prefixes; any other segment prefix in the run makes
        // "which one wins" part of the question, so such encodings are left out
        let nprefix = bytes.iter().take_while(|b| insn::is_legacy_prefix(**b)).count();
        if bytes[..nprefix].iter().any(|b| matches!(*b, 0x65 | 0x2e | 0x36 | 0x3e | 0x26)) || !bytes[..nprefix].contains(&0x64) {
            return CaseOut::discard("fs-prefix-not-alone");
        }
        for b in bytes[..nprefix].iter_mut() {
            if *b == 0x64 {
                *b = 0x65;
            }
        }
        let twin = NCase { code: crate::util::hex(&bytes), fs: c.gs, gs: c.fs, ..c.clone() };
        let a = self.eng().run(c, false);
        if let Some(hf) = harness_fault(&a) {
            return hf;
        }
        // an operand that reads the instruction's own bytes sees the swapped prefix: not comparable
        let len = c.code_bytes().len() as u64;
        if a.accesses.iter().any(|(ad, sz, _, _)| *ad < c.rip + len && ad.wrapping_add(*sz) > c.rip) {
            return CaseOut::discard("operand-overlaps-own-instruction-bytes");
        }
        let b = self.eng().run(&twin, false);
        let mut out = CaseOut::pass(true, fp).class(format!("form:{}", code)).class("seg:fs-twin");
        let same = match (&a.emu, &b.emu) {
            (Emu::Ok(x), Emu::Ok(y)) => {
                let (ra, rb) = (a.emu_regs.unwrap(), b.emu_regs.unwrap());
                x == y && ra.gpr == rb.gpr && ra.xmm == rb.xmm && ra.rip == rb.rip && ra.rflags == rb.rflags
            }
            (Emu::Err(_), Emu::Err(_)) => true,
            (Emu::Panic(p), Emu::Panic(q)) => p.signature() == q.signature(),
            _ => false,
        };
        if !same {
            let sig = format!("C05|{}|fs-vs-gs-twin", code);
            out.verdict = Verdict::Fail {
                sig,
                msg: format!("FS-relative operand behaves differently from the GS twin\n  instruction: {} [{}]\n  fs run: {:?}\n  gs twin: {:?}\n  fs={:#x} gs={:#x}", ins, c.code, emu_short(&a.emu), emu_short(&b.emu), c.fs, c.gs),
            };
        }
        out
    }

    /// C04: direct comparison, then the KF-C04-1 expected-deviation model.
    fn exec_c04(&mut self, c: &NCase) -> CaseOut {
        if c.steps > 0 {
            return self.exec_c04_program(c);
        }
        let fp = case_fp(c);
        let d = self.eng().run(c, true);
        if let Some(hf) = harness_fault(&d) {
            return hf;
        }
        if !d.valid {
            return CaseOut::discard("invalid-encoding");
        }
        let code = format!("{:?}", d.ins.code());
        if let Some(r) = d.skip_native {
            return CaseOut::discard(&format!("native-skipped:{}", r));
        }
        if !self.eng().floor.contains(&code) {
            return CaseOut::discard("form-not-in-floor");
        }
        let n = *d.native.as_ref().unwrap();
        if noncanonical_transfer(&d) {
            return CaseOut::discard("non-canonical-branch-target (vendor-specific fault point)");
        }
        if d.ins.mnemonic() == Mnemonic::Ret && matches!(d.emu, Emu::Ok(false)) && NEVER_TOP_LEVEL {
            return CaseOut::discard("top-level-ret-finish (C11)");
        }
        let mut out = CaseOut::pass(true, fp).class(format!("form:{}", code));
        let size = d.ins.stack_pointer_increment().unsigned_abs() as u64;
        let stack_relevant = |d: &Diff| -> Vec<String> {
            // components C04 owns: RSP, any GPR (popped register), stack/any memory, ok/err verdict
            d.mism.iter().filter(|(c, _)| matches!(c, Comp::Gpr(_) | Comp::Mem(_))).map(|(_, t)| t.clone()).collect()
        };
        let direct_ok = match (&d.emu, n.completed()) {
            (Emu::Ok(_), true) => stack_relevant(&d).is_empty(),
            (Emu::Err(_), false) => true,
            _ => false,
        };
        if direct_ok {
            return out.class(if n.completed() { "direct:match" } else { "direct:both-refuse" });
        }
        if let Emu::Panic(p) = &d.emu {
            let sig = format!("C04|{}|{}", code, p.signature());
            out.verdict = Verdict::Fail { sig, msg: format!("stack instruction crashed: {} at {}\n  instruction: {} [{}] rsp={:#x}", p.message, p.location, d.ins, c.code, c.gpr[4]) };
            return out;
        }
        // expected-deviation model: the emulator behaves like the CPU started with RSP + size.
        // RSP-typed operands take part in the bias: `push rsp` stores an RSP value, `call rsp` jumps to
        // one (both one operand size lower than the biased CPU's); `pop rsp` loads a raw value.
        let rsp_reg_operand = (0..d.ins.op_count()).any(|i| d.ins.op_kind(i) == OpKind::Register && d.ins.op_register(i).full_register() == Register::RSP);
        let rsp_mem_operand = (0..d.ins.op_count()).any(|i| d.ins.op_kind(i) == OpKind::Memory) && (d.ins.memory_base().full_register() == Register::RSP || d.ins.memory_index().full_register() == Register::RSP);
        if rsp_mem_operand && !(d.ins.memory_index() == Register::None && c.patches.len() >= 2) {
            return CaseOut::discard("rsp-based-memory-operand-not-normalised");
        }
        let mut cb = c.clone();
        cb.gpr[4] = c.gpr[4].wrapping_add(size);
        let images = crate::mach::arena_images(&cb);
        crate::mach::load_native(&self.eng().native, &images);
        let touches = {
            let (ins, _) = self.eng().decode(&cb);
            let acc = self.eng().accesses(&ins, &cb);
            acc.iter().any(|(a, s, _, _)| self.eng().native.touches_host(*a, *s))
        };
        if touches {
            return CaseOut::discard("native-skipped:would-touch-host-mapping");
        }
        let nb = self.eng().native.step(&cb.regs());
        let matches_model = match (&d.emu, nb.completed()) {
            (Emu::Ok(_), true) => {
                let er = d.emu_regs.unwrap();
                let m = d.ins.mnemonic();
                let want_rip = if rsp_reg_operand && matches!(m, Mnemonic::Call | Mnemonic::Jmp) { nb.regs.rip.wrapping_sub(size) } else { nb.regs.rip };
                let mut ok = er.rip == want_rip;
                for i in 0..16 {
                    let want = if i == 4 {
                        if rsp_reg_operand && m == Mnemonic::Pop {
                            if size == 2 {
                                // pop sp: the incremented RSP with its low word replaced by the popped value
                                (c.gpr[4].wrapping_add(2) & !0xffff) | (nb.regs.gpr[4] & 0xffff)
                            } else {
                                nb.regs.gpr[4]
                            }
                        } else {
                            nb.regs.gpr[4].wrapping_sub(size)
                        }
                    } else {
                        nb.regs.gpr[i]
                    };
                    if er.gpr[i] != want {
                        ok = false;
                    }
                }
                if rsp_reg_operand && m == Mnemonic::Push {
                    // the pushed RSP value is one operand size lower than the biased CPU's
                    if let Some(cell) = self.eng().native.peek(c.gpr[4], size as usize) {
                        let mut b = [0u8; 8];
                        b[..size as usize].copy_from_slice(&cell);
                        let v = u64::from_le_bytes(b).wrapping_sub(size);
                        self.eng().native.poke(c.gpr[4], &v.to_le_bytes()[..size as usize]);
                    }
                }
                // memory: emulator areas vs biased native arenas
                let (ax_mem_same, _) = self.compare_mem_with_native(c);
                ok && ax_mem_same
            }
            (Emu::Err(_), false) => true,
            _ => false,
        };
        if matches_model {
            out.verdict = Verdict::Known("KF-C04-1".into());
            return out.class("deviation:matches-bias-model");
        }
        if rsp_mem_operand && matches!((&d.emu, nb.completed()), (Emu::Ok(_), false) | (Emu::Err(_), true)) {
            // the bias also moves the *explicit* RSP-based operand of the CPU run by one operand size; at an
            // area edge that alone flips the CPU's verdict, which says nothing about the emulator
            return CaseOut::discard("rsp-based-memory-operand-at-an-area-edge-under-bias");
        }
        let what = match (&d.emu, n.completed(), nb.completed()) {
            (Emu::Ok(_), _, true) => "result differs from the CPU both directly and under the slot-bias model",
            (Emu::Ok(_), _, false) => "step succeeded although the CPU faults (directly and under the slot-bias model)",
            (Emu::Err(_), _, _) => "step failed although the CPU completes (directly and under the slot-bias model)",
            _ => "mismatch",
        };
        let comp = match (&d.emu, nb.completed()) {
            (Emu::Ok(_), true) => "state",
            (Emu::Ok(_), false) => "ok-vs-fault",
            _ => "err-vs-ok",
        };
        out.verdict = Verdict::Fail {
            sig: format!("C04|{}|{}", code, comp),
            msg: format!(
                "{}\n  instruction: {} [{}] rsp={:#x}\n  emulator: {}\n  direct mismatches: {:?}\n  cpu(direct): {}  cpu(biased rsp={:#x}): {} rsp'={:#x}",
                what,
                d.ins,
                c.code,
                c.gpr[4],
                emu_short(&d.emu),
                d.mism.iter().map(|(_, t)| t.clone()).take(4).collect::<Vec<_>>(),
                if n.completed() { "completes" } else { "faults" },
                cb.gpr[4],
                if nb.completed() { "completes" } else { "faults" },
                nb.regs.gpr[4],
            ),
        };
        out
    }

    /// C04 programs: emulator and CPU in lock-step, the KF-C04-1 bias applied around every stack instruction.
    fn exec_c04_program(&mut self, c: &NCase) -> CaseOut {
        let fp = case_fp(c);
        let images = crate::mach::arena_images(c);
        let mut ax = match crate::util::catch(|| crate::mach::build_ax(c, &images)) {
            Ok(Ok(a)) => a,
            _ => return CaseOut::fail("HARNESS-FAULT|C04-prog-build".into(), "could not build the machine".into()),
        };
        crate::mach::load_native(&self.eng().native, &images);
        let code_img = images.iter().find(|(k, _)| *k == ArenaKind::Code).unwrap().1.clone();
        let mut nregs = c.regs();
        let mut out = CaseOut::pass(true, fp).class("program");
        let (mut stack_steps, mut rsp_rel) = (0u32, 0u32);
        for stepno in 0..c.steps {
            let rip = nregs.rip;
            if rip < CODE_BASE || rip >= CODE_BASE + CODE_LEN as u64 - 16 {
                break;
            }
            let off = (rip - CODE_BASE) as usize;
            let ins = Decoder::with_ip(64, &code_img[off..off + 15], rip, DecoderOptions::NONE).decode();
            if ins.is_invalid() || !self.eng().allow.contains(&ins.code()) || insn::class_of(ins.mnemonic()) == Class::Os {
                break;
            }
            let is_stack = matches!(ins.mnemonic(), Mnemonic::Push | Mnemonic::Pop | Mnemonic::Call | Mnemonic::Ret);
            let size = if is_stack { ins.stack_pointer_increment().unsigned_abs() as u64 } else { 0 };
            if is_stack && operand_uses_rsp(&ins) {
                break; // RSP-typed operands are covered by the single-instruction cases
            }
            if !is_stack && (0..ins.op_count()).any(|i| ins.op_kind(i) == OpKind::Memory) && ins.memory_base() == Register::RSP {
                rsp_rel += 1;
            }
            // native step (biased around stack instructions)
            let mut pre = nregs;
            pre.gpr[4] = pre.gpr[4].wrapping_add(size);
            let probe = NCase { gpr: pre.gpr, rip, code: crate::util::hex(&code_img[off..off + ins.len()]), ..c.clone() };
            let acc = self.eng().accesses(&ins, &probe);
            if acc.iter().any(|(a, s, _, _)| self.eng().native.touches_host(*a, *s)) {
                break;
            }
            let n = self.eng().native.step(&pre);
            let r = crate::util::catch(|| crate::util::block_on(ax.step()).map_err(|e| e.to_string()));
            let code = format!("{:?}", ins.code());
            let fail = |out: &mut CaseOut, comp: &str, msg: String| {
                out.verdict = Verdict::Fail { sig: format!("C04|prog|{}|{}", code, comp), msg: format!("step #{} of the program, {} at {:#x}: {}\n  {}", stepno, ins, rip, msg, c.note) };
            };
            let emu_ok = match &r {
                Err(p) => {
                    fail(&mut out, &p.signature(), format!("the step crashed: {} at {}", p.message, p.location));
                    return out;
                }
                Ok(Ok(_)) => true,
                Ok(Err(_)) => false,
            };
            if n.completed() != emu_ok {
                let top = n.regs.rip >> 47;
                if !n.completed() && matches!(ins.mnemonic(), Mnemonic::Ret | Mnemonic::Call | Mnemonic::Jmp) && emu_ok && { let t = ax.reg_read_64(ax_x86::state::registers::SupportedRegister::RIP).unwrap() >> 47; t != 0 && t != 0x1ffff } {
                    let _ = top;
                    break; // non-canonical target: vendor-specific fault point
                }
                fail(&mut out, if emu_ok { "ok-vs-fault" } else { "err-vs-ok" }, format!("the CPU {} but the step answered {}", if n.completed() { "completes" } else { "faults" }, if emu_ok { "Ok" } else { "Err" }));
                return out;
            }
            if !emu_ok {
                break; // both refuse
            }
            if matches!(r, Ok(Ok(false))) {
                break; // the emulator's finish conventions are C11's subject
            }
            let mut post = n.regs;
            post.gpr[4] = post.gpr[4].wrapping_sub(size);
            let er = crate::mach::ax_regs(&ax);
            for i in 0..16 {
                if er.gpr[i] != post.gpr[i] {
                    fail(&mut out, if i == 4 { "rsp" } else { "gpr" }, format!("{}: emulator {:#x}, cpu {:#x}", crate::mach::GPR_NAMES[i], er.gpr[i], post.gpr[i]));
                    return out;
                }
            }
            if er.rip != post.rip {
                fail(&mut out, "rip", format!("rip: emulator {:#x}, cpu {:#x}", er.rip, post.rip));
                return out;
            }
            for d in ARENAS.iter() {
                let nm = self.eng.as_ref().unwrap().native.read_arena(d.kind);
                match ax.verif_area_data(d.base) {
                    Some(em) if em == nm => {}
                    Some(em) => {
                        let o = em.iter().zip(nm.iter()).position(|(a, b)| a != b).unwrap_or(0);
                        fail(&mut out, "mem", format!("memory at {:#x}: emulator {:02x?}, cpu {:02x?}", d.base + o as u64, &em[o..(o + 8).min(em.len())], &nm[o..(o + 8).min(nm.len())]));
                        return out;
                    }
                    None => {
                        fail(&mut out, "mem", "area vanished".into());
                        return out;
                    }
                }
            }
            // flags are C02's subject; keep both sides in sync on the compared ones only
            let mask = compared_flags(&ins, &pre);
            post.rflags = (post.rflags & mask) | (er.rflags & !mask & GUEST_FLAG_MASK);
            ax.verif_set_rflags(post.rflags & GUEST_FLAG_MASK);
            nregs = post;
            if is_stack {
                stack_steps += 1;
            }
        }
        out.nontrivial = stack_steps >= 1 && rsp_rel >= 1;
        if out.nontrivial {
            out = out.class("program:stack+rsp-relative");
        }
        if stack_steps > 0 {
            // every stack instruction matched the CPU only under the slot bias
            out.verdict = Verdict::Known("KF-C04-1".into());
        }
        out
    }

    /// The CPU's outcome for `c` started with RSP + operand size (KF-C04-1 model). None if unsafe.
    fn biased_native(&mut self, c: &NCase, ins: &Instruction) -> Option<Outcome> {
        let size = ins.stack_pointer_increment().unsigned_abs() as u64;
        let mut cb = c.clone();
        cb.gpr[4] = c.gpr[4].wrapping_add(size);
        let images = crate::mach::arena_images(&cb);
        let (bins, _) = self.eng().decode(&cb);
        let acc = self.eng().accesses(&bins, &cb);
        if acc.iter().any(|(a, s, _, _)| self.eng().native.touches_host(*a, *s)) {
            return None;
        }
        crate::mach::load_native(&self.eng().native, &images);
        Some(self.eng().native.step(&cb.regs()))
    }

    /// Re-run the emulator for `c` and compare its areas with the native arenas as they are now.
    fn compare_mem_with_native(&mut self, c: &NCase) -> (bool, String) {
        let images = crate::mach::arena_images(c);
        let r = crate::util::catch(|| {
            let mut ax = crate::mach::build_ax(c, &images).ok()?;
            let _ = crate::util::block_on(ax.step());
            Some(ax)
        });
        let ax = match r {
            Ok(Some(ax)) => ax,
            _ => return (false, "emulator re-run failed".into()),
        };
        for d in ARENAS.iter() {
            let nm = self.eng.as_ref().unwrap().native.read_arena(d.kind);
            match ax.verif_area_data(d.base) {
                Some(em) if em == nm => {}
                _ => return (false, format!("arena {:#x} differs", d.base)),
            }
        }
        (true, String::new())
    }
}

fn emu_short(e: &Emu) -> String {
    match e {
        Emu::Ok(b) => format!("Ok({})", b),
        Emu::Err(e) => format!("Err({})", emu_err_first_line(e)),
        Emu::Panic(p) => format!("PANIC {} at {}", p.message, p.location),
    }
}

/// `axverif forms`: which candidate forms execute (return Ok for some benign case) on this tree?
/// Prints one form per line to stdout (the floor file is made from this output, by hand, once).
pub fn forms_census(per_form: u64) -> i32 {
    crate::util::install_panic_hook();
    let mut eng = unsafe { Engine::new() };
    let n = eng.forms.len();
    let mut implemented = vec![];
    let mut not = vec![];
    for fi in 0..n {
        let mut opts = GenOpts::benign(vec![fi]);
        opts.mutate16 = 0;
        let mut ok = 0u64;
        let mut errs: BTreeMap<String, u64> = BTreeMap::new();
        for k in 0..per_form {
            let tree = crate::tape::new_tree(&Shape::flat(112), crate::util::mix2(0xF0F0, (fi as u64) << 32 | k));
            let tv = tree.current();
            let mut t = Tape::new(&tv[0]);
            let forms = eng.forms.clone();
            if let Some(c) = insn::gen_case(&mut t, &forms, &opts) {
                let d = eng.run(&c, false);
                match d.emu {
                    Emu::Ok(_) => ok += 1,
                    Emu::Err(e) => *errs.entry(norm_err(&e)).or_insert(0) += 1,
                    Emu::Panic(p) => *errs.entry(format!("PANIC {}", p.signature())).or_insert(0) += 1,
                }
            }
        }
        let name = eng.forms[fi].name.clone();
        if ok > 0 {
            implemented.push(name.clone());
            println!("{}", name);
        } else {
            not.push((name, errs));
        }
    }
    eprintln!("# {} candidate forms, {} execute, {} do not; ungenerated: {:?}", n, implemented.len(), not.len(), eng.ungenerated);
    for (n, e) in not {
        eprintln!("# NOT {} {:?}", n, e);
    }
    0
}
