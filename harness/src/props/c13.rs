//! C13: the built-in brk handler gives the guest a working, growing heap.
use super::mu::*;
use crate::sup::{CaseOut, Property, Tier, Verdict};
use crate::tape::{Shape, Tape, TapeVal};
use ax_x86::axecutor::Axecutor;
use ax_x86::helpers::syscalls::Syscall;
use ax_x86::state::registers::SupportedRegister as SR;
use serde::{Deserialize, Serialize};

#[derive(Clone, Debug, Serialize, Deserialize)]
pub enum Op {
    Query,
    /// move the break to base + off
    Set { off: u64 },
    Store { pos: u64, val: u8 },
    Load { pos: u64 },
}

#[derive(Clone, Debug, Serialize, Deserialize)]
pub struct Case {
    pub code_high: bool,
    /// blocker area this many pages above the heap base (0 = none), and its length
    pub blocker_pages: u64,
    pub blocker_len: u64,
    pub extra_low_areas: u64,
    pub ops: Vec<Op>,
    /// Some(off): the very first call of the run is brk(base + off) instead of brk(0); the base is learnt
    /// from an identically built twin machine (only to choose the argument — the verdict uses the area
    /// the call itself created)
    #[serde(default)]
    pub first_set: Option<u64>,
    /// empty (zero-length) areas created beforehand at these addresses: an empty area occupies no byte and
    /// may not get in the heap's way
    #[serde(default)]
    pub empty_areas: Vec<u64>,
}

pub struct C13;

// code: syscall ; nop ; mov [rbx],al ; nop ; mov cl,[rbx] ; nop ; nop
const CODE: [u8; 9] = [0x0f, 0x05, 0x90, 0x88, 0x03, 0x90, 0x8a, 0x0b, 0x90];
const OFF_SYSCALL: u64 = 0;
const OFF_STORE: u64 = 3;
const OFF_LOAD: u64 = 6;

fn disjoint(ax: &Axecutor) -> Result<(), String> {
    let m = ax.verif_area_meta();
    for (i, a) in m.iter().enumerate() {
        for b in m.iter().skip(i + 1) {
            let (a0, a1) = (a.0 as u128, a.0 as u128 + a.1 as u128);
            let (b0, b1) = (b.0 as u128, b.0 as u128 + b.1 as u128);
            if a0 < b1 && b0 < a1 && a.1 > 0 && b.1 > 0 {
                return Err(format!("areas {:#x}+{:#x} and {:#x}+{:#x} overlap", a.0, a.1, b.0, b.1));
            }
        }
    }
    Ok(())
}

impl Property for C13 {
    type Case = Case;
    fn id(&self) -> &'static str {
        "C13"
    }
    fn shape(&self) -> Shape {
        Shape::hist(3, 30, 6)
    }
    fn cases(&self, tier: Tier) -> u64 {
        match tier {
            Tier::Quick => 2_000_000,
            Tier::Thorough => 25_000_000,
        }
    }
    fn setup(&mut self) {
        // brk requests far beyond memory: a real allocation attempt must fail fast instead of being overcommitted
        // (not inside the libFuzzer target: AddressSanitizer reserves terabytes of address space for its shadow)
        if std::env::var("AXVERIF_FUZZ_PROP").is_err() {
            unsafe {
                let lim = libc::rlimit { rlim_cur: 16 << 30, rlim_max: 16 << 30 };
                libc::setrlimit(libc::RLIMIT_AS, &lim);
            }
        }
    }
    fn decode(&mut self, tape: &TapeVal) -> Case {
        let mut t = Tape::new(&tape[0]);
        let code_high = t.bool();
        let blocker_pages = if t.below(3) == 0 { 0 } else { 1 + t.below(64) };
        let blocker_len = 1 + t.below(0x2000);
        let extra_low_areas = t.below(3);
        let mut ops = vec![Op::Query];
        let mut cur: u64 = 0; // believed break offset from base
        for row in tape.iter().skip(1) {
            let mut t = Tape::new(row);
            let op = match t.weighted(&[10, 35, 30, 25]) {
                0 => Op::Query,
                1 => {
                    let off = match t.below(8) {
                        0 => 0,
                        1 => cur + 1,
                        2 => cur + 0x1000 * (1 + t.below(8)),
                        3 => cur.saturating_sub(1 + t.below(cur.max(1))),
                        4 => cur + 1 + t.below(0x100),
                        5 => t.below(0x10_0000), // up to 1 MiB
                        6 => 0x1000 * t.below(80),
                        _ if t.below(6) == 0 => t.pick(&[1u64 << 33, 1 << 40, 1 << 46, 1 << 62, u64::MAX - 0x10_0000]), // arbitrary sizes: far beyond any memory
                        _ => cur / 2,
                    };
                    if off < (1 << 32) {
                        cur = off;
                    }
                    Op::Set { off }
                }
                2 => Op::Store { pos: match t.below(4) { 0 => 0, 1 => cur.saturating_sub(1), _ => t.below(cur.max(1)) }, val: t.raw() as u8 },
                _ => Op::Load { pos: match t.below(4) { 0 => 0, 1 => cur.saturating_sub(1), _ => t.below(cur.max(1)) } },
            };
            ops.push(op);
        }
        let first_set = if t.below(5) == 0 { Some(t.pick(&[0u64, 1, 0x800, 0x1000, 0x1800, 0x3001, 0x10000])) } else { None };
        let empty_areas = if t.below(5) == 0 { vec![t.pick(&[0x2000u64, 0x3000, 0x7000_1000, 0x2800])] } else { vec![] };
        Case { code_high, blocker_pages, blocker_len, extra_low_areas, ops, first_set, empty_areas }
    }

    fn exec(&mut self, c: &Case) -> CaseOut {
        let mut out = CaseOut::pass(false, hash_json(c));
        let fail = |out: &mut CaseOut, sig: &str, msg: String| {
            out.verdict = Verdict::Fail { sig: format!("C13|{}", sig), msg };
            out.nontrivial = true;
        };
        let code_at: u64 = if c.code_high { 0x7000_0000 } else { 0x1000 };
        let mut ax = match api(|| Axecutor::new(&CODE, code_at, code_at)) {
            Api::Ok(a) => a,
            other => return CaseOut::fail("HARNESS-FAULT|C13-new".into(), other.short()),
        };
        init_regs(&mut ax, 3);
        for k in 0..c.extra_low_areas {
            let _ = ax.mem_init_zero(0x2000 + 0x3000 * k, 0x800);
        }
        for a in &c.empty_areas {
            let _ = ax.mem_init_zero(*a, 0);
        }
        if let Err(e) = ax.handle_syscalls(vec![Syscall::Brk]) {
            return CaseOut::fail("HARNESS-FAULT|C13-handle".into(), e.to_string());
        }
        let mut base: Option<u64> = None;
        let mut cur: u64 = 0; // break offset from base
        let mut known: Vec<Option<u8>> = vec![];
        let mut blocker: Option<u64> = None;
        let (mut grew_after_store, mut stored, mut shrunk, mut regrown) = (false, false, false, false);
        let mut classes: Vec<&'static str> = vec![];
        let a_call_failed = std::cell::Cell::new(false);
        let syscall = |ax: &mut Axecutor, arg: u64| -> Api<u64> {
            ax.reg_write_64(SR::RIP, code_at + OFF_SYSCALL).unwrap();
            ax.reg_write_64(SR::RAX, 12).unwrap();
            ax.reg_write_64(SR::RDI, arg).unwrap();
            match step(ax) {
                Api::Ok(_) => Api::Ok(ax.reg_read_64(SR::RAX).unwrap()),
                Api::Err(e) => {
                    a_call_failed.set(true);
                    Api::Err(e)
                }
                Api::Panic(p) => Api::Panic(p),
            }
        };
        if let Some(off) = c.first_set {
            // the twin tells where this layout puts the heap
            let twin_base: Option<u64> = (|| {
                let mut tw = Axecutor::new(&CODE, code_at, code_at).ok()?;
                init_regs(&mut tw, 3);
                for k in 0..c.extra_low_areas {
                    let _ = tw.mem_init_zero(0x2000 + 0x3000 * k, 0x800);
                }
                for a in &c.empty_areas {
                    let _ = tw.mem_init_zero(*a, 0);
                }
                tw.handle_syscalls(vec![Syscall::Brk]).ok()?;
                match syscall(&mut tw, 0) {
                    Api::Ok(v) => tw.verif_area_meta().iter().find(|m| m.0 < v && v - m.0 <= m.1).map(|m| m.0),
                    _ => None,
                }
            })();
            a_call_failed.set(false);
            if let Some(tb) = twin_base {
                let p = tb + off;
                let before_areas: Vec<u64> = ax.verif_area_meta().iter().map(|m| m.0).collect();
                let r = syscall(&mut ax, p);
                if let Api::Panic(pi) = &r {
                    fail(&mut out, &format!("set|{}", pi.signature()), format!("first call brk({:#x}) crashed: {}", p, r.short()));
                    return out;
                }
                // the heap is the area this call created (it may already be empty again: compare by count per start)
                let after_meta = ax.verif_area_meta();
                let created: Vec<(u64, u64)> = after_meta
                    .iter()
                    .filter(|m| after_meta.iter().filter(|x| x.0 == m.0).count() > before_areas.iter().filter(|x| **x == m.0).count())
                    .map(|m| (m.0, m.1))
                    .collect();
                let unique_start = created.len() == 1 && after_meta.iter().filter(|x| x.0 == created[0].0).count() == 1;
                if let ([(rb, rlen)], true) = (&created[..], unique_start) {
                    let (rb, rlen) = (*rb, *rlen);
                    let in_the_way = after_meta.iter().any(|(st, _len, _, _)| *st > rb && *st < p);
                    if p >= rb && !in_the_way {
                        classes.push("first-call-moves-the-break");
                        match r {
                            Api::Ok(v) if v == p => {
                                base = Some(rb);
                                cur = p - rb;
                                known.resize(cur as usize, None);
                            }
                            other => {
                                fail(&mut out, "set|first-call-did-not-move-the-break", format!("the first call of the run, brk({:#x}) with heap base {:#x} and nothing in the way, answered {} instead of returning the new break", p, rb, other.short()));
                                return out;
                            }
                        }
                    } else {
                        // no verdict on this call; the heap is known now
                        base = Some(rb);
                        cur = rlen;
                        known.resize(cur as usize, None);
                    }
                } else if !created.is_empty() {
                    // the heap shares its start with another area: which is which is left open
                    return CaseOut::discard("heap-start-shared-with-another-area");
                }
            }
        }
        for (n, op) in c.ops.iter().enumerate() {
            // whether a machine can go on after a failed step is not this property's business: if an
            // earlier call of this history failed and the machine now counts as finished, the history ends
            if a_call_failed.get() && ax.verif_finished() {
                classes.push("history-ended:machine-finished-after-a-failed-call");
                break;
            }
            let desc = format!("op #{} {:x?}", n, op);
            match op {
                Op::Query => {
                    let r = syscall(&mut ax, 0);
                    match r {
                        Api::Ok(v) => match base {
                            None => {
                                // the heap base is the start of the area that ends at the first reported break
                                // (read from the area list; the guest-visible break may lie above it)
                                let start = ax.verif_area_meta().iter().find(|m| m.0 < v && v - m.0 <= m.1).map(|m| m.0);
                                let v = match start {
                                    Some(st) => {
                                        cur = v - st;
                                        known.resize(cur as usize, None);
                                        st
                                    }
                                    None => v,
                                };
                                base = Some(v);
                                if c.blocker_pages > 0 {
                                    let b = v + cur + 0x1000 * c.blocker_pages;
                                    if ax.mem_init_zero(b, c.blocker_len).is_ok() {
                                        blocker = Some(b);
                                    }
                                }
                            }
                            Some(b) => {
                                if v != b + cur {
                                    fail(&mut out, "query|brk0-is-not-the-current-break", format!("{}: brk(0) returned {:#x}, the break was last moved to {:#x} (heap base {:#x})", desc, v, b + cur, b));
                                    return out;
                                }
                            }
                        },
                        other => {
                            fail(&mut out, &format!("query|{}", if let Api::Panic(p) = &other { p.signature() } else { "failed".into() }), format!("{}: brk(0) answered {}", desc, other.short()));
                            return out;
                        }
                    }
                }
                Op::Set { off } if *off >= (1 << 32) => {
                    // a request far beyond any memory: the statement's "moves the break to p" cannot be
                    // demanded literally; what can is that the call comes back — with p, with the old break
                    // or with an error — and that the host survives (a crash is reported by the supervisor)
                    let b = base.unwrap();
                    let p = b.wrapping_add(*off);
                    classes.push("request-far-beyond-memory");
                    let r = syscall(&mut ax, p);
                    match r {
                        Api::Panic(pi) => {
                            fail(&mut out, &format!("set|{}", pi.signature()), format!("{}: brk({:#x}) (heap base {:#x}) crashed: {} at {}", desc, p, b, pi.message, pi.location));
                            return out;
                        }
                        Api::Ok(v) if v == p => {
                            // accepted: the heap is now larger than this harness can mirror; the history ends
                            classes.push("huge-break-accepted");
                            break;
                        }
                        _ => {} // refused: nothing moved (the next query checks that)
                    }
                }
                Op::Set { off } => {
                    let b = base.unwrap();
                    let p = b + off;
                    // in the way of the growth: any other area that starts in [current break, p)
                    // (an empty area there occupies no byte; whether it blocks the growth is left open, as in C10)
                    let collides = ax.verif_area_meta().iter().any(|(st, _len, _, _)| *st != b && *st >= b + cur && *st < p);
                    let _ = &blocker;
                    let r = syscall(&mut ax, p);
                    if let Api::Panic(pi) = &r {
                        fail(&mut out, &format!("set|{}", pi.signature()), format!("{}: brk({:#x}) crashed: {}", desc, p, r.short()));
                        return out;
                    }
                    if collides {
                        classes.push("growth-into-occupied-range");
                        // may fail (error or old break) but must not move, overlap or lose data
                        match r {
                            Api::Ok(v) if v == p => {
                                // claims success: the disjointness invariant below decides
                                cur = *off;
                                known.resize(cur as usize, None);
                            }
                            _ => {}
                        }
                    } else {
                        match r {
                            Api::Ok(v) if v == p => {
                                if *off > cur {
                                    if stored {
                                        grew_after_store = true;
                                    }
                                    if shrunk {
                                        regrown = true;
                                    }
                                } else if *off < cur {
                                    shrunk = true;
                                }
                                cur = *off;
                                known.resize(cur as usize, None);
                            }
                            other => {
                                fail(&mut out, "set|break-not-moved", format!("{}: brk({:#x}) with heap base {:#x} and nothing in the way answered {} instead of returning the new break", desc, p, b, other.short()));
                                return out;
                            }
                        }
                    }
                }
                Op::Store { pos, val } => {
                    if *pos >= cur {
                        continue;
                    }
                    let a = base.unwrap() + pos;
                    ax.reg_write_64(SR::RIP, code_at + OFF_STORE).unwrap();
                    ax.reg_write_64(SR::RBX, a).unwrap();
                    ax.reg_write_64(SR::RAX, *val as u64).unwrap();
                    let r = step(&mut ax);
                    if !r.is_ok() {
                        fail(&mut out, &format!("store|{}", if let Api::Panic(p) = &r { p.signature() } else { "heap-byte-not-writable".into() }), format!("{}: guest store to {:#x} (heap base {:#x}, break {:#x}) answered {}", desc, a, base.unwrap(), base.unwrap() + cur, r.short()));
                        return out;
                    }
                    known[*pos as usize] = Some(*val);
                    stored = true;
                }
                Op::Load { pos } => {
                    if *pos >= cur {
                        continue;
                    }
                    let a = base.unwrap() + pos;
                    ax.reg_write_64(SR::RIP, code_at + OFF_LOAD).unwrap();
                    ax.reg_write_64(SR::RBX, a).unwrap();
                    ax.reg_write_64(SR::RCX, 0x5a5a).unwrap();
                    let r = step(&mut ax);
                    if !r.is_ok() {
                        fail(&mut out, &format!("load|{}", if let Api::Panic(p) = &r { p.signature() } else { "heap-byte-not-readable".into() }), format!("{}: guest load from {:#x} (heap base {:#x}, break {:#x}) answered {}", desc, a, base.unwrap(), base.unwrap() + cur, r.short()));
                        return out;
                    }
                    let got = ax.reg_read_64(SR::RCX).unwrap() as u8;
                    if let Some(v) = known[*pos as usize] {
                        if got != v {
                            fail(&mut out, "load|heap-lost-data", format!("{}: heap byte at {:#x} reads {:#x}, it was written as {:#x} and the break never went below it since", desc, a, got, v));
                            return out;
                        }
                        classes.push("load-of-known-byte");
                    }
                }
            }
            if let Err(e) = disjoint(&ax) {
                fail(&mut out, "invariant|heap-overlaps-another-area", format!("after {}: {}", desc, e));
                return out;
            }
        }
        out.nontrivial = grew_after_store && regrown;
        if grew_after_store {
            classes.push("grow-after-store");
        }
        if regrown {
            classes.push("shrink-regrow");
        }
        classes.sort();
        classes.dedup();
        for cl in classes {
            out = out.class(cl);
        }
        out
    }

    fn rule(&self) -> String {
        "cases: histories of 2–29 operations (1/5 of them opened by brk(base+off) as the very first call, 1/5 with an empty area at a likely heap address) — brk(0), brk(base+off) with off from {0, ±1, page multiples, odd sizes, up to 1 MiB, shrink below, half, and requests far beyond memory (2^33 … 2^64): these must come back — moved, refused or failed — without crashing the host}, guest byte stores and loads (MOV executed with step()) at the first byte, last byte and random offsets of the heap — under layouts with the code low or high, 0–2 extra low areas and an optional blocker area 1–64 pages above the heap base; break model: base = start of the heap area found at the first brk(0); brk(p≥base) with nothing in the way returns p and brk(0) then returns p; every byte in [base, break) is guest-readable/writable and keeps its value until the break goes below it; growth into an occupied range may fail but must not overlap; areas stay pairwise disjoint; non-trivial = a grow after a store and a shrink followed by a regrow; distinct by hash(history)".into()
    }
    fn required_classes(&self, _tier: Tier) -> Vec<String> {
        ["grow-after-store", "shrink-regrow", "load-of-known-byte", "growth-into-occupied-range", "request-far-beyond-memory", "first-call-moves-the-break"].iter().map(|s| s.to_string()).collect()
    }
    fn assumptions(&self) -> Vec<String> {
        vec!["the heap base is the start of the area that ends at the break reported by the first brk(0) (read from the area list); brk(p) for p below it is outside the stated domain and not generated".into(), "bytes that left the heap by a shrink are unspecified after a regrow".into()]
    }
}
