//! Helpers shared by the model-based properties.
use crate::util::{self, Fnv, PanicInfo};
use ax_x86::axecutor::Axecutor;
use ax_x86::helpers::errors::AxError;
use ax_x86::state::memory::VerifArea;
use ax_x86::state::registers::SupportedRegister as SR;

pub enum Api<T> {
    Ok(T),
    Err(String),
    Panic(PanicInfo),
}

impl<T> Api<T> {
    pub fn is_ok(&self) -> bool {
        matches!(self, Api::Ok(_))
    }
    pub fn is_err(&self) -> bool {
        matches!(self, Api::Err(_))
    }
    pub fn short(&self) -> String {
        match self {
            Api::Ok(_) => "Ok".into(),
            Api::Err(e) => format!("Err({})", e.lines().find(|l| !l.trim().is_empty()).unwrap_or("").chars().take(90).collect::<String>()),
            Api::Panic(p) => format!("PANIC({} at {})", p.message.lines().next().unwrap_or(""), p.location),
        }
    }
}

/// Call an API function under catch_unwind.
pub fn api<T>(f: impl FnOnce() -> Result<T, AxError>) -> Api<T> {
    match util::catch(|| f().map_err(|e| e.to_string())) {
        Ok(Ok(v)) => Api::Ok(v),
        Ok(Err(e)) => Api::Err(e),
        Err(p) => Api::Panic(p),
    }
}

pub fn step(ax: &mut Axecutor) -> Api<bool> {
    api(|| util::block_on(ax.step()))
}

pub fn execute(ax: &mut Axecutor) -> Api<()> {
    api(|| util::block_on(ax.execute()))
}

pub const GPR: [SR; 16] = crate::mach::SR64;

/// Full observable state of a machine (for "changes nothing" and twin comparisons).
#[derive(Clone, Debug, PartialEq)]
pub struct Snap {
    pub gpr: [u64; 16],
    pub rip: u64,
    pub rflags: u64,
    pub xmm: [u128; 16],
    pub fs: u64,
    pub gs: u64,
    pub finished: bool,
    pub executed: u64,
    pub areas: Vec<VerifArea>,
    pub trace: Vec<(u64, u64, u8, i16, u64)>,
    pub call_stack: Vec<u64>,
}

pub fn snap(ax: &Axecutor) -> Snap {
    let mut gpr = [0u64; 16];
    let mut xmm = [0u128; 16];
    for i in 0..16 {
        gpr[i] = ax.reg_read_64(GPR[i]).unwrap();
        xmm[i] = ax.reg_read_128(crate::mach::SRXMM[i]).unwrap();
    }
    Snap {
        gpr,
        rip: ax.reg_read_64(SR::RIP).unwrap(),
        rflags: ax.verif_rflags(),
        xmm,
        fs: ax.read_fs(),
        gs: ax.read_gs(),
        finished: ax.verif_finished(),
        executed: ax.verif_executed(),
        areas: ax.verif_areas(),
        trace: ax.verif_trace(),
        call_stack: ax.verif_call_stack(),
    }
}

impl Snap {
    /// First difference to `other`, for messages.
    pub fn diff(&self, other: &Snap) -> String {
        for i in 0..16 {
            if self.gpr[i] != other.gpr[i] {
                return format!("{} {:#x} vs {:#x}", crate::mach::GPR_NAMES[i], self.gpr[i], other.gpr[i]);
            }
            if self.xmm[i] != other.xmm[i] {
                return format!("xmm{} {:#x} vs {:#x}", i, self.xmm[i], other.xmm[i]);
            }
        }
        if self.rip != other.rip {
            return format!("rip {:#x} vs {:#x}", self.rip, other.rip);
        }
        if self.rflags != other.rflags {
            return format!("rflags {:#x} vs {:#x}", self.rflags, other.rflags);
        }
        if self.fs != other.fs || self.gs != other.gs {
            return format!("fs/gs {:#x}/{:#x} vs {:#x}/{:#x}", self.fs, self.gs, other.fs, other.gs);
        }
        if self.finished != other.finished {
            return format!("finished {} vs {}", self.finished, other.finished);
        }
        if self.executed != other.executed {
            return format!("executed {} vs {}", self.executed, other.executed);
        }
        if self.areas.len() != other.areas.len() {
            return format!("area count {} vs {}", self.areas.len(), other.areas.len());
        }
        for (a, b) in self.areas.iter().zip(other.areas.iter()) {
            if a.start != b.start || a.length != b.length || a.access != b.access {
                return format!("area meta {:#x}+{:#x}/{} vs {:#x}+{:#x}/{}", a.start, a.length, a.access, b.start, b.length, b.access);
            }
            if a.data != b.data {
                let off = a.data.iter().zip(b.data.iter()).position(|(x, y)| x != y).unwrap_or(0);
                return format!("area {:#x} byte at +{:#x}: {:#x} vs {:#x}", a.start, off, a.data.get(off).copied().unwrap_or(0), b.data.get(off).copied().unwrap_or(0));
            }
        }
        if self.trace != other.trace {
            return format!("trace {:x?} vs {:x?}", self.trace, other.trace);
        }
        if self.call_stack != other.call_stack {
            return format!("call stack {:x?} vs {:x?}", self.call_stack, other.call_stack);
        }
        "no difference".into()
    }
}

pub fn hash_json<T: serde::Serialize>(v: &T) -> u64 {
    let s = serde_json::to_string(v).unwrap_or_default();
    Fnv::new().str(&s).finish()
}

/// Write all 16 GPRs from a seed (so that nothing depends on the constructor's random fill).
pub fn init_regs(ax: &mut Axecutor, seed: u64) {
    for i in 0..16 {
        ax.reg_write_64(GPR[i], util::mix2(seed, i as u64)).unwrap();
        ax.reg_write_128(crate::mach::SRXMM[i], util::mix2(seed, 100 + i as u64) as u128).unwrap();
    }
}
