//! C11: execution loop — running is stepping; one instruction per step; exact finish and limit.
use super::mu::*;
use crate::prog::{self, PI};
use crate::sup::{CaseOut, Property, Tier, Verdict};
use crate::tape::{Shape, Tape, TapeVal};
use ax_x86::auto::generated::SupportedMnemonic;
use ax_x86::axecutor::Axecutor;
use ax_x86::state::registers::SupportedRegister as SR;
use iced_x86::{Decoder, DecoderOptions, FlowControl, Mnemonic};
use serde::{Deserialize, Serialize};

const BASE: u64 = 0x40_0000;
const HARD_LIMIT: u64 = 400;

#[derive(Clone, Debug, Serialize, Deserialize)]
pub struct Case {
    pub prog: Vec<PI>,
    pub seed: u64,
    /// user instruction limit relative to the dynamic length: None, or Some(delta) with limit = max(0, k + delta)
    pub limit_delta: Option<i64>,
    /// machine C: step this many times, then execute()
    pub resume_after: u64,
    /// stop hook: (phase 0 before / 1 after, on mnemonic class 0 Nop 1 Mov 2 Add 3 Cmp 4 Jmp 5 Call 6 Ret, at the n-th invocation)
    pub stop: Option<(u8, u8, u64)>,
    /// Some(n): the stack is an entry frame from init_stack_program_start with n arguments (argc, n
    /// pointers, null, null = n + 3 entries) instead of an empty init_stack stack
    #[serde(default)]
    pub entry_frame: Option<u8>,
    /// the run starts at this slot of the code (the constructor's entry point need not be its first byte)
    #[serde(default)]
    pub entry_slot: usize,
}

const STOP_MNEMS: [SupportedMnemonic; 7] = [SupportedMnemonic::Nop, SupportedMnemonic::Mov, SupportedMnemonic::Add, SupportedMnemonic::Cmp, SupportedMnemonic::Jmp, SupportedMnemonic::Call, SupportedMnemonic::Ret];

pub struct C11;

fn build(c: &Case, limit: Option<u64>) -> Result<Axecutor, String> {
    let img = prog::assemble(&c.prog, BASE);
    let mut ax = Axecutor::new(&img, BASE, prog::slot_addr(BASE, c.entry_slot.min(c.prog.len().saturating_sub(1)))).map_err(|e| e.to_string())?;
    init_regs(&mut ax, c.seed);
    match c.entry_frame {
        None => ax.init_stack(0x800).map(|_| ()),
        Some(n) => ax.init_stack_program_start(0x800, (0..n).map(|i| format!("arg{}", i)).collect(), vec![]).map(|_| ()),
    }
    .map_err(|e| e.to_string())?;
    if let Some(l) = limit {
        ax.set_max_instructions(l);
    }
    if let Some((phase, m, nth)) = c.stop {
        let mut outcomes = vec![prog::Outcome::Unhandled; nth as usize];
        outcomes.push(prog::Outcome::StopUnhandled);
        outcomes.push(prog::Outcome::Unhandled);
        let _ = outcomes;
        let mn = STOP_MNEMS[m as usize % STOP_MNEMS.len()];
        if phase == 0 {
            ax.hook_before_mnemonic_native(mn, prog::hook_fn(0)).map_err(|e| e.to_string())?;
        } else {
            ax.hook_after_mnemonic_native(mn, prog::hook_fn(0)).map_err(|e| e.to_string())?;
        }
    }
    Ok(ax)
}

fn script_for(c: &Case) -> prog::HookScript {
    let mut s = prog::HookScript::default();
    if let Some((_, _, nth)) = c.stop {
        let mut o = vec![prog::Outcome::Unhandled; nth as usize];
        o.push(prog::Outcome::StopUnhandled);
        s.outcomes = vec![o];
        s.modify = vec![None];
    }
    s
}

impl Property for C11 {
    type Case = Case;
    fn id(&self) -> &'static str {
        "C11"
    }
    fn shape(&self) -> Shape {
        Shape::hist(2, 31, 8)
    }
    fn cases(&self, tier: Tier) -> u64 {
        match tier {
            Tier::Quick => 400_000,
            Tier::Thorough => 6_000_000,
        }
    }
    fn decode(&mut self, tape: &TapeVal) -> Case {
        let mut t = Tape::new(&tape[0]);
        let n = tape.len() - 1;
        let seed = t.raw();
        let limit_delta = match t.below(8) {
            0 | 1 | 2 => None,
            3 => Some(-1000), // limit 0
            4 => Some(-1),
            5 => Some(0),
            6 => Some(1),
            _ => Some(-(t.below(6) as i64) - 2),
        };
        let resume_after = t.below(12);
        let stop = if t.below(4) == 0 { Some((t.below(2) as u8, t.below(7) as u8, t.below(3))) } else { None };
        let mut o = prog::ProgOpts::straight();
        o.w[14] = 0;
        let mut p = vec![];
        for (i, row) in tape.iter().skip(1).enumerate() {
            let mut t = Tape::new(row);
            p.push(prog::gen_slot(&mut t, i, n, &o));
        }
        // ending flavour: sometimes force a top-level RET as the last slot
        if t.below(4) == 0 {
            if let Some(l) = p.last_mut() {
                *l = PI::Ret;
            }
        }
        // 1/5: the stack holds an entry frame; it is empty only once the whole frame has been popped
        let entry_frame = if t.below(5) == 0 { Some(t.below(2) as u8) } else { None };
        let entry_slot = if t.below(4) == 0 { t.below(p.len() as u64) as usize } else { 0 };
        Case { prog: p, seed, limit_delta, resume_after, stop, entry_frame, entry_slot }
    }

    fn exec(&mut self, c: &Case) -> CaseOut {
        let mut out = CaseOut::pass(false, hash_json(c));
        let fail = |out: &mut CaseOut, sig: &str, msg: String| {
            out.verdict = Verdict::Fail { sig: format!("C11|{}", sig), msg };
            out.nontrivial = true;
        };
        let img = prog::assemble(&c.prog, BASE);
        let code_end = BASE + img.len() as u64;
        // ---- reference run B: step by step under the hard limit, checking every step
        prog::reset_hooks(script_for(c));
        let mut b = match build(c, Some(HARD_LIMIT)) {
            Ok(b) => b,
            Err(e) => return CaseOut::fail("HARNESS-FAULT|C11-build".into(), e),
        };
        let initial_rsp = b.reg_read_64(SR::RSP).unwrap();
        // where RSP stands when the stack is empty: the entry value for an init_stack stack. With an entry
        // frame the stack is empty once the frame has been popped — how long the frame is (argc, pointers,
        // nulls, possibly an auxiliary vector) is not this property's business, so a RET at or above the
        // entry RSP gets no verdict on finishing; a RET below it (something is still pushed) is never
        // the top-level one
        let empty_rsp = initial_rsp;
        let mut k = 0u64; // successful steps
        let mut cause = "limit";
        let mut step_err = false;
        loop {
            let rip = b.reg_read_64(SR::RIP).unwrap();
            let rsp = b.reg_read_64(SR::RSP).unwrap();
            let inside = rip >= BASE && rip < code_end;
            let (ins, next_ip) = if inside {
                let off = (rip - BASE) as usize;
                let mut d = Decoder::with_ip(64, &img[off..(off + 15).min(img.len())], rip, DecoderOptions::NONE);
                let i = d.decode();
                (Some(i), i.next_ip())
            } else {
                (None, 0)
            };
            let before = snap(&b);
            let ev_before = prog::events_len();
            let r = step(&mut b);
            match r {
                Api::Panic(p) => {
                    fail(&mut out, &format!("step|{}", p.signature()), format!("step #{} at {:#x} crashed: {} at {}", k, rip, p.message, p.location));
                    return out;
                }
                Api::Err(e) => {
                    if k >= HARD_LIMIT {
                        cause = "hard-limit";
                    } else {
                        cause = "error";
                        step_err = true;
                        let _ = (inside, &e);
                    }
                    break;
                }
                Api::Ok(cont) => {
                    k += 1;
                    let after = snap(&b);
                    if after.executed != before.executed + 1 {
                        fail(&mut out, "step|executed-count-not-plus-one", format!("step #{} at {:#x}: executed count {} -> {}", k, rip, before.executed, after.executed));
                        return out;
                    }
                    let stopped_by_hook = prog::events_len() > ev_before && prog::EVENTS.with(|e| e.borrow()[ev_before..].iter().any(|x| matches!(x.outcome, prog::Outcome::StopUnhandled | prog::Outcome::StopHandled)));
                    if let Some(i) = ins {
                        if i.flow_control() == FlowControl::Next && after.rip != next_ip {
                            fail(&mut out, "step|rip-not-at-next-instruction", format!("step #{}: {} at {:#x} left rip at {:#x}, next instruction is {:#x}", k, i, rip, after.rip, next_ip));
                            return out;
                        }
                        // finish conditions
                        let open_ret = c.entry_frame.is_some() && i.mnemonic() == Mnemonic::Ret && rsp >= initial_rsp && !stopped_by_hook;
                        let top_ret = i.mnemonic() == Mnemonic::Ret && if c.entry_frame.is_some() { open_ret && !cont } else { rsp == empty_rsp };
                        let expect_finish = after.rip == code_end || top_ret || stopped_by_hook;
                        if top_ret {
                            cause = "top-level-ret";
                        } else if stopped_by_hook {
                            cause = "stop-hook";
                        } else if after.rip == code_end {
                            cause = "reached-code-end";
                        }
                        if expect_finish != !cont || after.finished != expect_finish {
                            fail(
                                &mut out,
                                if expect_finish { "finish|not-finished-when-it-should" } else { "finish|finished-early" },
                                format!("step #{}: {} at {:#x} -> rip {:#x} (code end {:#x}, top-level ret {}, stop hook {}): step returned {}, finished flag {}", k, i, rip, after.rip, code_end, top_ret, stopped_by_hook, cont, after.finished),
                            );
                            return out;
                        }
                        if expect_finish {
                            break;
                        }
                    }
                }
            }
        }
        let b_final = snap(&b);
        let b_events = prog::take_events();
        // after finishing: a further step fails and changes nothing
        if !step_err && cause != "hard-limit" {
            let r = step(&mut b);
            if !matches!(r, Api::Err(_)) {
                fail(&mut out, "finish|step-after-finish-did-not-fail", format!("after finishing by {} a further step answered {}", cause, r.short()));
                return out;
            }
            let s2 = snap(&b);
            if s2 != b_final {
                fail(&mut out, "finish|step-after-finish-changed-state", format!("after finishing by {} a further (failing) step changed state: {}", cause, b_final.diff(&s2)));
                return out;
            }
        }
        out = out.class(format!("finish:{}", cause));
        if cause == "hard-limit" {
            // a generated loop: twin comparison still applies below with an explicit limit
        }
        // ---- user limit N relative to k
        let limit: Option<u64> = c.limit_delta.map(|d| (k as i64 + d).max(0) as u64).map(|l| l.min(HARD_LIMIT));
        let eff_limit = limit.unwrap_or(HARD_LIMIT);
        // ---- machine A: execute()
        prog::reset_hooks(script_for(c));
        let mut a = build(c, Some(eff_limit)).unwrap();
        let ra = execute(&mut a);
        if let Api::Panic(p) = &ra {
            fail(&mut out, &format!("execute|{}", p.signature()), format!("execute crashed: {} at {}", p.message, p.location));
            return out;
        }
        let a_final = snap(&a);
        let a_events = prog::take_events();
        // ---- machine D: step() in a loop with the same limit (the definition of "running is stepping")
        prog::reset_hooks(script_for(c));
        let mut d = build(c, Some(eff_limit)).unwrap();
        let mut rd: Api<()> = Api::Ok(());
        let mut steps_d = 0u64;
        loop {
            let pre_d = snap(&d);
            let was_finished = pre_d.finished;
            match step(&mut d) {
                Api::Ok(true) => steps_d += 1,
                Api::Ok(false) => {
                    steps_d += 1;
                    break;
                }
                Api::Err(e) => {
                    // a step refused because of the instruction limit changes nothing — not even the finished flag
                    // (recognised by the state — the executed count has reached the limit — not by the error text)
                    if pre_d.executed >= eff_limit && !was_finished {
                        let post_d = snap(&d);
                        if post_d != pre_d {
                            fail(&mut out, "limit|refused-step-changed-state", format!("the step refused at the instruction limit changed state: {}", pre_d.diff(&post_d)));
                            return out;
                        }
                    }
                    rd = Api::Err(e);
                    break;
                }
                Api::Panic(p) => {
                    rd = Api::Panic(p);
                    break;
                }
            }
            if steps_d > HARD_LIMIT + 2 {
                break;
            }
        }
        let d_final = snap(&d);
        let d_events = prog::take_events();
        let same_result = match (&ra, &rd) {
            (Api::Ok(_), Api::Ok(_)) => true,
            (Api::Err(x), Api::Err(y)) => x == y,
            _ => false,
        };
        if !same_result {
            fail(&mut out, "twin|execute-vs-step-result", format!("execute() answered {}, stepping answered {}", ra.short(), rd.short()));
            return out;
        }
        if a_final != d_final {
            fail(&mut out, "twin|execute-vs-step-state", format!("execute() and step* end in different states: {}", a_final.diff(&d_final)));
            return out;
        }
        if a_events != d_events {
            fail(&mut out, "twin|execute-vs-step-hook-events", format!("hook events differ: {} vs {}", a_events.len(), d_events.len()));
            return out;
        }
        // limit semantics: with limit N < k exactly N instructions execute, then Err, and a further step changes nothing
        if let Some(n) = limit {
            out = out.class(if n == 0 { "limit:0" } else if n < k { "limit:<k" } else if n == k { "limit:=k" } else { "limit:>k" });
            if n < k {
                if a_final.executed != n || !matches!(ra, Api::Err(_)) {
                    fail(&mut out, "limit|not-exactly-n", format!("limit {} with a dynamic length of {}: executed {} and execute() answered {}", n, k, a_final.executed, ra.short()));
                    return out;
                }
                let r = step(&mut a);
                let s2 = snap(&a);
                if !matches!(r, Api::Err(_)) || s2 != a_final {
                    fail(&mut out, "limit|step-after-limit", format!("after the limit of {} a further step answered {} and state changed: {}", n, r.short(), a_final.diff(&s2)));
                    return out;
                }
                // raising the limit afterwards resumes the run as if the higher limit had been set from the start
                if cause != "hard-limit" {
                    a.set_max_instructions(HARD_LIMIT);
                    let r2 = execute(&mut a);
                    let resumed = snap(&a);
                    prog::take_events();
                    let agrees = match (&r2, cause) {
                        (Api::Ok(_), "error") => false,
                        (Api::Ok(_), _) => resumed == b_final,
                        (Api::Err(_), "error") => resumed.executed == b_final.executed && resumed.gpr == b_final.gpr,
                        _ => false,
                    };
                    out = out.class("limit:raised-and-resumed");
                    if !agrees && c.stop.is_none() {
                        fail(&mut out, "limit|resume-after-raising-the-limit", format!("limit {} reached, limit raised, execute(): {} — the unlimited reference run ended by {} ; {}", n, r2.short(), cause, b_final.diff(&resumed)));
                        return out;
                    }
                }
            } else if cause != "error" && cause != "hard-limit" {
                // the program finishes within the limit: same as the unlimited reference run
                if a_final.executed != k || !matches!(ra, Api::Ok(_)) {
                    fail(&mut out, "limit|finishing-run-affected", format!("limit {} ≥ dynamic length {}: executed {} and execute() answered {}", n, k, a_final.executed, ra.short()));
                    return out;
                }
            }
        } else {
            out = out.class("limit:none");
            if a_final != b_final && cause != "hard-limit" {
                fail(&mut out, "twin|reference-vs-execute", format!("checked stepping run and execute() differ: {}", b_final.diff(&a_final)));
                return out;
            }
            let _ = &b_events;
        }
        // ---- machine C: resume — step r times, then execute()
        prog::reset_hooks(script_for(c));
        let mut m = build(c, Some(eff_limit)).unwrap();
        let mut rc: Option<Api<()>> = None;
        for _ in 0..c.resume_after {
            match step(&mut m) {
                Api::Ok(true) => {}
                Api::Ok(false) => {
                    rc = Some(Api::Ok(()));
                    break;
                }
                Api::Err(e) => {
                    rc = Some(Api::Err(e));
                    break;
                }
                Api::Panic(p) => {
                    rc = Some(Api::Panic(p));
                    break;
                }
            }
        }
        let rc = rc.unwrap_or_else(|| execute(&mut m));
        let c_final = snap(&m);
        prog::take_events();
        let same = match (&ra, &rc) {
            (Api::Ok(_), Api::Ok(_)) => true,
            (Api::Err(x), Api::Err(y)) => x == y,
            _ => false,
        };
        if !same || c_final != a_final {
            fail(&mut out, "twin|resume", format!("stepping {} times and then execute() differs from execute(): {} / {} ; {}", c.resume_after, ra.short(), rc.short(), a_final.diff(&c_final)));
            return out;
        }
        // ---- machine E: the limit is set only after r steps — it still counts from the start of the run
        if let Some(n) = limit {
            prog::reset_hooks(script_for(c));
            let mut e = build(c, Some(HARD_LIMIT)).unwrap();
            let mut early: Option<Api<()>> = None;
            let mut done = 0u64;
            for _ in 0..c.resume_after {
                match step(&mut e) {
                    Api::Ok(true) => done += 1,
                    Api::Ok(false) => {
                        early = Some(Api::Ok(()));
                        break;
                    }
                    Api::Err(x) => {
                        early = Some(Api::Err(x));
                        break;
                    }
                    Api::Panic(p) => {
                        early = Some(Api::Panic(p));
                        break;
                    }
                }
            }
            if early.is_none() && n >= done {
                e.set_max_instructions(n);
                let re = execute(&mut e);
                let e_final = snap(&e);
                prog::take_events();
                let same = match (&ra, &re) {
                    (Api::Ok(_), Api::Ok(_)) => true,
                    (Api::Err(x), Api::Err(y)) => x == y,
                    _ => false,
                };
                out = out.class("limit:set-late");
                if !same || e_final != a_final {
                    fail(&mut out, "limit|set-after-some-steps", format!("setting the limit {} after {} steps and running on differs from setting it before the run: {} / {} ; {}", n, done, ra.short(), re.short(), a_final.diff(&e_final)));
                    return out;
                }
            } else if early.is_none() && !snap(&e).finished {
                // the limit is set *below* what has already run: it has been reached (and passed), so a
                // further step — however many are tried — fails and changes nothing
                e.set_max_instructions(n);
                out = out.class("limit:set-late-below-executed");
                for attempt in 0..2 {
                    let pre_e = snap(&e);
                    let r = step(&mut e);
                    let post_e = snap(&e);
                    if !matches!(r, Api::Err(_)) || post_e != pre_e {
                        prog::take_events();
                        fail(&mut out, "limit|lowered-below-executed-not-enforced", format!("{} instructions had run when the limit was set to {}; further step #{} answered {} ({})", done, n, attempt + 1, r.short(), pre_e.diff(&post_e)));
                        return out;
                    }
                }
                prog::take_events();
            } else {
                prog::take_events();
            }
        }
        out.nontrivial = k >= 3 && cause != "hard-limit";
        out
    }

    fn rule(&self) -> String {
        "cases: slot-grid programs of 1–30 instructions (register ALU/mov/inc/dec/cmp/test, Jcc/JMP rel8|rel32 forward and backward, JMP/CALL through a register, JRCXZ, CALL/RET, PUSH/POP on an initialised stack), ending by falling off the end, a top-level RET, a jump to the end address, a jump past it, an error, or a stop hook; instruction limits {none, 0, k−n, k−1, k, k+1} around the dynamic length k; a resume point; the limit set before the run or after r steps; oracle: a checked stepping run (count +1, RIP = decoded next-ip for non-transfers, finish ⇔ code end ∨ top-level RET ∨ stop), twin runs execute() ≡ step* ≡ step^r;execute (result, full state snapshot, hook events), and 'a further step fails and changes nothing' after finish / limit; non-trivial = ≥3 dynamic instructions and not cut by the harness's hard limit; distinct by hash(case)".into()
    }
    fn required_classes(&self, _tier: Tier) -> Vec<String> {
        ["finish:reached-code-end", "finish:top-level-ret", "finish:stop-hook", "finish:error", "limit:none", "limit:0", "limit:<k", "limit:=k", "limit:>k", "limit:set-late", "limit:set-late-below-executed", "limit:raised-and-resumed"].iter().map(|s| s.to_string()).collect()
    }
    fn assumptions(&self) -> Vec<String> {
        vec!["every run carries a hard limit of 400 instructions so that generated loops terminate; runs cut by it are only twin-compared".into(), "whether the current instruction still executes after a before-hook stop is left open; the stepping reference observes what the code does and the twins must agree".into()]
    }
}
