//! C20: execution is a deterministic function of the explicit inputs.
use super::mu::*;
use crate::prog::{self, HookScript, Outcome, PI};
use crate::sup::{CaseOut, Property, Tier, Verdict};
use crate::tape::{Shape, Tape, TapeVal};
use crate::util::Fnv;
use ax_x86::auto::generated::SupportedMnemonic;
use ax_x86::axecutor::Axecutor;
use ax_x86::state::registers::SupportedRegister as SR;
use iced_x86::{Decoder, DecoderOptions, InstructionInfoFactory, OpAccess, Register};
use serde::{Deserialize, Serialize};
use std::io::Write;

const BASE: u64 = 0x40_0000;
const DATA: u64 = 0x60_0000;

#[derive(Clone, Debug, Serialize, Deserialize)]
pub struct Case {
    pub prog: Vec<PI>,
    /// explicitly written registers: bit i = GPR i (encoding order) with value from `seed`
    pub written: u32,
    pub seed: u64,
    pub flags: u64,
    pub fs: u64,
    pub gs: u64,
    pub limit: u64,
    /// hooks: (mnemonic index into c12::MNEMS, after?, outcome, modify)
    pub hooks: Vec<(usize, bool, Outcome, Option<(u8, u64)>)>,
    pub cross_process: bool,
    /// explicitly written XMM registers (bit i = XMM i)
    #[serde(default)]
    pub xmm_written: u32,
    /// Some: the program is loaded from a generated ELF with these (slot, name) symbols (aliases included)
    #[serde(default)]
    pub elf_syms: Option<Vec<(usize, String)>>,
    /// Some: the stack comes from init_stack_program_start with these (argv, envp) instead of init_stack
    #[serde(default)]
    pub start_frame: Option<(Vec<String>, Vec<String>)>,
    /// areas placed by the emulator itself before the run: (length, zeroed?) via
    /// mem_init_zero_anywhere / mem_init_anywhere; the addresses handed out are part of the digest
    #[serde(default)]
    pub anywhere: Vec<(u64, bool)>,
    /// the built-in brk handler is installed (its heap placement and break arithmetic are outputs too)
    #[serde(default)]
    pub brk: bool,
    /// Some: the case is ONE instruction of any supported form (the native checks' generator): only the
    /// registers the instruction reads are written, all others keep the constructor's random fill
    #[serde(default)]
    pub nat: Option<crate::mach::NCase>,
}

pub struct C20 {
    /// instruction generator of the native checks, for the single-instruction cases
    gen: Option<(crate::diff::Engine, crate::insn::GenOpts)>,
}

impl C20 {
    pub fn new() -> C20 {
        C20 { gen: None }
    }
}

/// Registers that some instruction of the program reads, incl. implicit ones: bits 0–15 GPRs
/// (encoding order), bits 16–31 XMM0–15.
fn static_read_set(img: &[u8]) -> u32 {
    let mut f = InstructionInfoFactory::new();
    let mut d = Decoder::with_ip(64, img, BASE, DecoderOptions::NONE);
    let mut m = 0u32;
    while d.can_decode() {
        let i = d.decode();
        if i.is_invalid() {
            continue;
        }
        for ur in f.info(&i).used_registers() {
            let r = ur.register();
            if r.is_xmm() {
                if !matches!(ur.access(), OpAccess::Write) {
                    m |= 1 << (16 + r.number());
                }
                continue;
            }
            if !r.is_gpr() {
                continue;
            }
            let full_write = matches!(ur.access(), OpAccess::Write) && (r.is_gpr64() || r.is_gpr32());
            if !full_write {
                // reads, read-writes, conditional and partial-width writes all depend on the old value
                m |= 1 << r.full_register().number();
            }
        }
    }
    m
}

pub struct RunResult {
    pub digest: u64,
    pub text: String,
}

/// Run the case on a freshly constructed machine and digest everything the property lists.
pub fn run_once(c: &Case) -> Result<RunResult, String> {
    if let Some(nc) = &c.nat {
        return run_nat(nc);
    }
    let img = prog::assemble(&c.prog, BASE);
    let mut sym_addrs: Vec<u64> = vec![];
    let mut ax = match &c.elf_syms {
        None => Axecutor::new(&img, BASE, BASE).map_err(|e| e.to_string())?,
        Some(syms) => {
            use crate::elfb::{build, ElfDesc, Seg, Sym};
            let d = ElfDesc {
                entry: BASE,
                segs: vec![Seg { p_type: 1, flags: 5, vaddr: BASE, filesz: img.len() as u64, memsz: img.len() as u64, seed: 0 }],
                syms: Some(syms.iter().map(|(slot, name)| Sym { name: Some(name.clone()), value: prog::slot_addr(BASE, *slot), defined: true }).collect()),
                with_shdrs: true,
            };
            sym_addrs = syms.iter().map(|(slot, _)| prog::slot_addr(BASE, *slot)).collect();
            let (mut file, lay) = build(&d);
            file[lay.seg_offsets[0]..lay.seg_offsets[0] + img.len()].copy_from_slice(&img);
            Axecutor::from_binary(&file).map_err(|e| e.to_string())?
        }
    };
    for i in 0..16 {
        if c.written >> i & 1 == 1 {
            ax.reg_write_64(GPR[i], crate::util::mix2(c.seed, i as u64)).map_err(|e| e.to_string())?;
        }
        if c.xmm_written >> i & 1 == 1 {
            ax.reg_write_128(crate::mach::SRXMM[i], (crate::util::mix2(c.seed, 64 + i as u64) as u128) << 64 | crate::util::mix2(c.seed, 96 + i as u64) as u128).map_err(|e| e.to_string())?;
        }
    }
    ax.verif_set_rflags(c.flags);
    ax.write_fs(c.fs);
    ax.write_gs(c.gs);
    ax.mem_init_area(DATA, crate::mach::fill(c.seed, crate::native::ArenaKind::Rw, 0x200)).map_err(|e| e.to_string())?;
    let mut placed: Vec<u64> = vec![];
    for (k, (len, zeroed)) in c.anywhere.iter().enumerate() {
        let r = if *zeroed { ax.mem_init_zero_anywhere(*len) } else { ax.mem_init_anywhere(crate::mach::fill(c.seed ^ k as u64, crate::native::ArenaKind::Ro, *len as usize), Some(format!("any{}", k))) };
        placed.push(r.map_err(|e| e.to_string())?);
    }
    // either way RSP is written explicitly
    match &c.start_frame {
        None => placed.push(ax.init_stack(0x800).map_err(|e| e.to_string())?),
        Some((argv, envp)) => placed.push(ax.init_stack_program_start(0x800, argv.clone(), envp.clone()).map_err(|e| e.to_string())?),
    }
    ax.set_max_instructions(c.limit);
    if c.brk {
        ax.handle_syscalls(vec![ax_x86::helpers::syscalls::Syscall::Brk]).map_err(|e| e.to_string())?;
    }
    let script = HookScript { outcomes: c.hooks.iter().map(|h| vec![h.2]).collect(), modify: c.hooks.iter().map(|h| h.3).collect(), register_inside: None };
    prog::reset_hooks(script);
    for (id, h) in c.hooks.iter().enumerate() {
        use std::convert::TryFrom;
        let m = SupportedMnemonic::try_from(super::c12::MNEMS[h.0 % super::c12::MNEMS.len()]).unwrap();
        let r = if h.1 { ax.hook_after_mnemonic_native(m, prog::hook_fn(id)) } else { ax.hook_before_mnemonic_native(m, prog::hook_fn(id)) };
        r.map_err(|e| e.to_string())?;
    }
    // defined set: explicitly written ∪ RSP ∪ registers fully written by executed instructions
    let mut defined = (c.written & 0xffff) | (1 << 4) | (c.xmm_written & 0xffff) << 16;
    let mut f = InstructionInfoFactory::new();
    let code_end = BASE + img.len() as u64;
    let mut result = String::new();
    loop {
        let rip = ax.reg_read_64(SR::RIP).unwrap();
        let ins = if rip >= BASE && rip < code_end {
            let off = (rip - BASE) as usize;
            Some(Decoder::with_ip(64, &img[off..(off + 15).min(img.len())], rip, DecoderOptions::NONE).decode())
        } else {
            None
        };
        match step(&mut ax) {
            Api::Ok(cont) => {
                // (SYSCALL: the architecture clobbers RCX and R11, the emulator leaves that to the handlers —
                // OS-interface instructions are outside C01 — so nothing becomes defined through it)
                if let Some(i) = ins.filter(|i| i.mnemonic() != iced_x86::Mnemonic::Syscall) {
                    for ur in f.info(&i).used_registers() {
                        let r = ur.register();
                        if r.is_gpr() && matches!(ur.access(), OpAccess::Write) && (r.is_gpr64() || r.is_gpr32()) {
                            defined |= 1 << r.full_register().number();
                        }
                        if r.is_xmm() && matches!(ur.access(), OpAccess::Write) {
                            defined |= 1 << (16 + r.number());
                        }
                    }
                }
                // hook modifications also define registers
                if !cont {
                    result = "Ok(finished)".into();
                    break;
                }
            }
            Api::Err(e) => {
                result = format!("Err({})", e);
                break;
            }
            Api::Panic(p) => {
                result = format!("PANIC({} at {})", p.message, p.location);
                break;
            }
        }
    }
    let events = prog::take_events();
    for (id, h) in c.hooks.iter().enumerate() {
        if let Some((r, _)) = h.3 {
            if events.iter().any(|e| e.hook == id) {
                defined |= 1 << (r as u32 % 16);
            }
        }
    }
    let mut h = Fnv::new();
    let mut text = String::new();
    for a in &placed {
        h.u64(*a);
        text.push_str(&format!("placed@{:#x} ", a));
    }
    for i in 0..16 {
        if defined >> i & 1 == 1 {
            let v = ax.reg_read_64(GPR[i]).unwrap();
            h.u64(i as u64).u64(v);
            text.push_str(&format!("{}={:#x} ", crate::mach::GPR_NAMES[i], v));
        }
    }
    for i in 0..16 {
        if defined >> (16 + i) & 1 == 1 {
            let v = ax.reg_read_128(crate::mach::SRXMM[i]).unwrap();
            h.u64(100 + i as u64).u64(v as u64).u64((v >> 64) as u64);
            text.push_str(&format!("xmm{}={:#x} ", i, v));
        }
    }
    // rendered trace / call stack (they embed symbol names) and symbol resolution
    let ttxt = ax.trace().unwrap_or_else(|e| format!("ERR {}", e));
    let ctxt = ax.call_stack().unwrap_or_else(|e| format!("ERR {}", e));
    h.str(&ttxt).str(&ctxt);
    for a in &sym_addrs {
        let n = ax.resolve_symbol(*a).unwrap_or_default();
        h.u64(*a).str(&n);
        text.push_str(&format!("sym@{:#x}={} ", a, n));
    }
    let rip = ax.reg_read_64(SR::RIP).unwrap();
    let fl = ax.verif_rflags();
    h.u64(rip).u64(fl).u64(ax.verif_executed()).u64(ax.read_fs()).u64(ax.read_gs());
    text.push_str(&format!("rip={:#x} rflags={:#x} executed={} ", rip, fl, ax.verif_executed()));
    for a in ax.verif_areas() {
        h.u64(a.start).u64(a.length).u64(a.access as u64).bytes(&a.data);
    }
    let tr = ax.verif_trace();
    for e in &tr {
        h.u64(e.0).u64(e.1).u64(e.2 as u64).u64(e.3 as u64).u64(e.4);
    }
    for a in ax.verif_call_stack() {
        h.u64(a);
    }
    h.str(&result);
    // hook events: only fields that are functions of the defined state
    for e in &events {
        h.u64(e.hook as u64).u64(e.rip).u64(e.executed).u64(e.rflags);
    }
    text.push_str(&format!("trace_entries={} events={} result={}", tr.len(), events.len(), result.replace('\n', " | ").chars().take(400).collect::<String>()));
    Ok(RunResult { digest: h.finish(), text })
}

/// One instruction on a machine where only the registers it reads (iced's used_registers: explicit,
/// implicit, address registers, partial-width destinations) are written; everything the property lists is
/// digested over the registers that are defined afterwards.
fn run_nat(nc: &crate::mach::NCase) -> Result<RunResult, String> {
    use crate::native::{ArenaKind, ARENAS, CODE_BASE};
    let images = crate::mach::arena_images(nc);
    let code_img = &images.iter().find(|(k, _)| *k == ArenaKind::Code).unwrap().1;
    let bytes = nc.code_bytes();
    let ins = Decoder::with_ip(64, &bytes, nc.rip, DecoderOptions::NONE).decode();
    if ins.is_invalid() {
        return Err("undecodable single-instruction case".into());
    }
    let mut f = InstructionInfoFactory::new();
    let (mut reads, mut defines) = (1u32 << 4, 0u32); // RSP is always explicit
    for ur in f.info(&ins).used_registers() {
        let r = ur.register();
        if r.is_xmm() {
            if !matches!(ur.access(), OpAccess::Write) {
                reads |= 1 << (16 + r.number());
            }
            if matches!(ur.access(), OpAccess::Write | OpAccess::ReadWrite) {
                defines |= 1 << (16 + r.number());
            }
            continue;
        }
        if !r.is_gpr() {
            continue;
        }
        let n = r.full_register().number();
        let full_write = matches!(ur.access(), OpAccess::Write) && (r.is_gpr64() || r.is_gpr32());
        if full_write {
            defines |= 1 << n;
        } else {
            reads |= 1 << n;
        }
    }
    let mut ax = Axecutor::new(code_img, CODE_BASE, nc.rip).map_err(|e| e.to_string())?;
    for d in ARENAS.iter() {
        if d.kind == ArenaKind::Code {
            continue;
        }
        let img = images.iter().find(|(k, _)| *k == d.kind).unwrap().1.clone();
        ax.mem_init_area(d.base, img).map_err(|e| e.to_string())?;
        if d.prot != 3 {
            ax.mem_prot(d.base, d.prot).map_err(|e| e.to_string())?;
        }
    }
    for i in 0..16 {
        if reads >> i & 1 == 1 {
            ax.reg_write_64(GPR[i], nc.gpr[i]).map_err(|e| e.to_string())?;
        }
        if reads >> (16 + i) & 1 == 1 {
            ax.reg_write_128(crate::mach::SRXMM[i], nc.xmm[i][0] as u128 | (nc.xmm[i][1] as u128) << 64).map_err(|e| e.to_string())?;
        }
    }
    ax.verif_set_rflags(nc.rflags & crate::native::GUEST_FLAG_MASK);
    ax.write_fs(nc.fs);
    ax.write_gs(nc.gs);
    let result = match step(&mut ax) {
        Api::Ok(b) => {
            reads |= defines;
            format!("Ok({})", b)
        }
        Api::Err(e) => format!("Err({})", e),
        Api::Panic(p) => format!("PANIC({} at {})", p.message, p.location),
    };
    let mut h = Fnv::new();
    let mut text = format!("[{}] {} ", nc.code, ins);
    for i in 0..16 {
        if reads >> i & 1 == 1 {
            let v = ax.reg_read_64(GPR[i]).unwrap();
            h.u64(i as u64).u64(v);
            text.push_str(&format!("{}={:#x} ", crate::mach::GPR_NAMES[i], v));
        }
        if reads >> (16 + i) & 1 == 1 {
            let v = ax.reg_read_128(crate::mach::SRXMM[i]).unwrap();
            h.u64(100 + i as u64).u64(v as u64).u64((v >> 64) as u64);
            text.push_str(&format!("xmm{}={:#x} ", i, v));
        }
    }
    let rip = ax.reg_read_64(SR::RIP).unwrap();
    h.u64(rip).u64(ax.verif_rflags()).u64(ax.verif_executed()).u64(ax.read_fs()).u64(ax.read_gs());
    for a in ax.verif_areas() {
        h.u64(a.start).u64(a.length).u64(a.access as u64).bytes(&a.data);
    }
    h.str(&result);
    text.push_str(&format!("rip={:#x} rflags={:#x} result={}", rip, ax.verif_rflags(), result.replace('\n', " | ").chars().take(300).collect::<String>()));
    Ok(RunResult { digest: h.finish(), text })
}

/// `axverif c20-digest`: read a case (JSON) from stdin, print its digest. Used for the cross-process twin.
pub fn digest_main() -> i32 {
    crate::util::install_panic_hook();
    let mut s = String::new();
    use std::io::Read;
    std::io::stdin().read_to_string(&mut s).unwrap();
    let c: Case = match serde_json::from_str(&s) {
        Ok(c) => c,
        Err(e) => {
            println!("ERR bad case: {}", e);
            return 2;
        }
    };
    match run_once(&c) {
        Ok(r) => {
            println!("{:016x} {}", r.digest, r.text);
            0
        }
        Err(e) => {
            println!("ERR {}", e);
            2
        }
    }
}

impl Property for C20 {
    type Case = Case;
    fn id(&self) -> &'static str {
        "C20"
    }
    fn shape(&self) -> Shape {
        Shape::hist(3, 21, 28)
    }
    fn cases(&self, tier: Tier) -> u64 {
        match tier {
            Tier::Quick => 500_000,
            Tier::Thorough => 8_000_000,
        }
    }
    fn setup(&mut self) {
        let eng = crate::diff::Engine::new_emu_only();
        let floor = eng.floor.clone();
        let forms = eng.form_indices(|f| f.class != crate::insn::Class::Os && floor.contains(&f.name));
        let mut o = crate::insn::GenOpts::benign(forms);
        o.allow_fs = true;
        self.gen = Some((eng, o));
    }
    fn decode(&mut self, tape: &TapeVal) -> Case {
        // 1/4: one instruction of any supported form, operands and state from the native checks' generator
        if tape[0][27] % 4 == 0 {
            if let Some((eng, o)) = &self.gen {
                let words: Vec<u64> = tape.iter().skip(1).flat_map(|r| r.iter().copied()).chain(std::iter::repeat(0).take(120)).collect();
                let mut tn = Tape::new(&words);
                if let Some(nc) = crate::insn::gen_case(&mut tn, &eng.forms, o) {
                    return Case { prog: vec![], written: 0, seed: 0, flags: 0, fs: 0, gs: 0, limit: 1, hooks: vec![], cross_process: tape[0][26] % 16 == 0, xmm_written: 0, elf_syms: None, start_frame: None, anywhere: vec![], brk: false, nat: Some(nc) };
                }
            }
        }
        let mut t = Tape::new(&tape[0]);
        let n = tape.len() - 1;
        let seed = t.raw();
        let extra = t.raw() as u32 & 0xffff;
        let flags = t.raw() & 0x8d5;
        let (fs, gs) = (t.val64(), t.val64());
        let limit = 5 + t.below(120);
        let cross_process = t.below(16) == 0;
        let mut o = prog::ProgOpts::straight();
        o.w = [6, 12, 12, 8, 6, 10, 6, 4, 2, 6, 3, 5, 4, 4, 2, 1];
        o.w_extra = [4, 0, 0, 14];
        let mut p = vec![];
        for (i, row) in tape.iter().skip(1).enumerate() {
            let mut t = Tape::new(row);
            p.push(prog::gen_slot(&mut t, i, n, &o));
        }
        let nh = t.weighted(&[50, 25, 15, 10]);
        let mut hooks = vec![];
        for _ in 0..nh {
            hooks.push((
                t.below(14) as usize,
                t.bool(),
                [Outcome::Unhandled, Outcome::Handled, Outcome::StopUnhandled, Outcome::Fail][t.weighted(&[70, 15, 8, 7])],
                if t.below(3) == 0 { Some((t.pick(&[0u8, 1, 2, 3, 6, 7]), t.val64())) } else { None },
            ));
        }
        // every register an instruction may read is written explicitly; a random subset of the rest too
        let img = prog::assemble(&p, BASE);
        let reads = static_read_set(&img);
        let written = (reads | (extra & if t.bool() { 0xffff } else { 0 })) & 0xffff;
        let xmm_written = (reads >> 16) | (t.raw() as u32 & if t.bool() { 0xff } else { 0 });
        let elf_syms = if t.below(3) == 0 {
            // symbols on slots, with aliases (two names on one address) and one on the entry
            let ns = 1 + t.below(6) as usize;
            let mut v: Vec<(usize, String)> = vec![];
            for k in 0..ns {
                let slot = if k > 0 && t.below(3) == 0 { v[t.below(v.len() as u64) as usize].0 } else { t.below(n as u64) as usize };
                v.push((slot, format!("sym{}_{}", k, t.below(100))));
            }
            Some(v)
        } else {
            None
        };
        // an ELF segment is padded with zero bytes up to its page end, and 00 00 is `add [rax],al`: a program
        // that runs off its end reads RAX
        let written = if elf_syms.is_some() { written | 1 } else { written };
        // the emulator's own placement decisions (string areas, anywhere areas) are outputs too
        let start_frame = if t.below(4) == 0 {
            let words = ["", "a", "prog", "--flag", "KEY=value", "x=1", "a-somewhat-longer-argument-string"];
            let na = t.below(4) as usize;
            let ne = t.below(3) as usize;
            Some(((0..na).map(|_| t.pick(&words).to_string()).collect(), (0..ne).map(|_| t.pick(&words).to_string()).collect()))
        } else {
            None
        };
        let anywhere = (0..t.weighted(&[60, 25, 15])).map(|_| (t.pick(&[1u64, 8, 0x40, 0x1000, 0x1001]), t.bool())).collect();
        // 1/4: the built-in brk handler serves the program's SYSCALLs; the slot before a SYSCALL then loads
        // RAX with 12 (brk) most of the time and the one before that a break request into RDI
        let brk = t.below(4) == 0;
        let mut p = p;
        if brk {
            for i in 1..p.len() {
                if matches!(p[i], PI::Syscall) && t.below(4) != 0 {
                    p[i - 1] = PI::MovImm { r: 0, imm: 12 };
                    if i >= 2 {
                        p[i - 2] = PI::MovImm { r: 5, imm: t.pick(&[0u64, 1, 0x2000, 0x1_0000, 0x7fff_0000, u64::MAX]) };
                    }
                }
            }
        }
        // some SYSCALLs become INT 0x80 / INT 3-style interrupts (error texts of unhandled interrupts)
        for i in 0..p.len() {
            if matches!(p[i], PI::Syscall) && t.below(3) == 0 {
                p[i] = PI::Int { n: t.pick(&[0x80u8, 0x03, 0x21]) };
            }
        }
        // the handler reads the call number and its argument: RAX and RDI are explicit inputs then
        let written = if brk { written | 1 | 1 << 7 } else { written };
        Case { prog: p, written, seed, flags, fs, gs, limit, hooks, cross_process, xmm_written, elf_syms, start_frame, anywhere, brk, nat: None }
    }

    fn exec(&mut self, c: &Case) -> CaseOut {
        let mut out = CaseOut::pass(false, hash_json(c));
        let a = match run_once(c) {
            Ok(r) => r,
            Err(e) => return CaseOut::fail("HARNESS-FAULT|C20-run".into(), e),
        };
        let b = match run_once(c) {
            Ok(r) => r,
            Err(e) => return CaseOut::fail("HARNESS-FAULT|C20-run".into(), e),
        };
        let unwritten = 16 - (c.written | 1 << 4).count_ones();
        out.nontrivial = unwritten > 0 && (c.prog.len() >= 2 || c.nat.is_some());
        if c.nat.is_some() {
            out = out.class("single-instruction-of-any-form");
        }
        out = out.class(if a.text.contains("result=Err") { "ends-in-error" } else { "finishes" });
        if !c.hooks.is_empty() {
            out = out.class("with-hooks");
        }
        if c.elf_syms.is_some() {
            out = out.class("elf-with-symbol-aliases");
        }
        if c.start_frame.is_some() {
            out = out.class("entry-frame-with-strings");
        }
        if !c.anywhere.is_empty() {
            out = out.class("anywhere-areas");
        }
        if c.brk && c.prog.iter().any(|p| matches!(p, PI::Syscall)) {
            out = out.class("brk-handler-with-syscalls");
        }
        if c.prog.iter().any(|p| matches!(p, PI::Int { .. })) && c.hooks.len() >= 2 {
            out = out.class("interrupt-with-several-hooks");
        }
        if c.prog.iter().any(|p| matches!(p, PI::Syscall)) && c.hooks.len() >= 2 {
            out = out.class("syscall-with-several-hooks");
        }
        if c.prog.iter().any(|p| matches!(p, PI::Xmm { .. })) {
            out = out.class("uses-xmm");
        }
        if a.text.contains("PANIC") {
            out.verdict = Verdict::Fail { sig: "C20|panic".into(), msg: a.text.clone() };
            return out;
        }
        if a.digest != b.digest {
            out.verdict = Verdict::Fail {
                sig: "C20|in-process|two-machines-differ".into(),
                msg: format!("two independently constructed machines with the same explicit inputs diverge ({} registers left to the constructor's random fill)\n  A: {}\n  B: {}", unwritten, a.text, b.text),
            };
            out.nontrivial = true;
            return out;
        }
        if c.cross_process {
            out = out.class("cross-process");
            let exe = std::env::current_exe().unwrap_or_else(|_| "/proc/self/exe".into());
            let child = std::process::Command::new(exe).arg("c20-digest").stdin(std::process::Stdio::piped()).stdout(std::process::Stdio::piped()).stderr(std::process::Stdio::null()).spawn();
            match child {
                Ok(mut ch) => {
                    let _ = ch.stdin.take().unwrap().write_all(serde_json::to_string(c).unwrap().as_bytes());
                    let o = ch.wait_with_output();
                    match o {
                        Ok(o) => {
                            let txt = String::from_utf8_lossy(&o.stdout).to_string();
                            let d = txt.split_whitespace().next().unwrap_or("");
                            if txt.starts_with("ERR") || d.len() != 16 {
                                return CaseOut::fail("HARNESS-FAULT|C20-child".into(), format!("digest child answered: {}", txt.chars().take(200).collect::<String>()));
                            }
                            if d != format!("{:016x}", a.digest) {
                                out.verdict = Verdict::Fail {
                                    sig: "C20|cross-process|processes-differ".into(),
                                    msg: format!("the same case gives different results in two processes\n  here:  {}\n  child: {}", a.text, txt.trim()),
                                };
                                out.nontrivial = true;
                                return out;
                            }
                        }
                        Err(e) => return CaseOut::fail("HARNESS-FAULT|C20-child".into(), e.to_string()),
                    }
                }
                Err(e) => return CaseOut::fail("HARNESS-FAULT|C20-spawn".into(), e.to_string()),
            }
        }
        let _ = Register::None;
        out
    }

    fn rule(&self) -> String {
        "cases: 1/4 single instructions of every supported non-OS form (the native checks' generator: all operand shapes, all registers incl. byte registers, memory operands) on a machine where only the registers the instruction reads are written; 3/4 slot-grid programs of 2–20 instructions (all generated instruction kinds incl. stack, calls, register-indirect transfers) where every register any instruction may read (iced used_registers incl. implicit and partial-width destinations) is written explicitly and the others keep the constructor's random fill; explicit flags, FS/GS, a data area, a stack; XMM moves/xor/load/store incl. both MOVUPS register encodings; 1/3 of the programs loaded from a generated ELF whose symbol table has aliases (two names on one address); 0–3 identical scripted hooks (incl. unhooked SYSCALLs beside hooks on other mnemonics); for 1/4 of the cases the stack is an entry frame with argv/envp strings and 0–2 areas are placed by mem_init_anywhere / mem_init_zero_anywhere, the addresses handed out being part of the digest; for 1/4 the built-in brk handler serves the program's SYSCALLs; oracle: two independently constructed machines in one process — and for 1/16 of the cases a separately exec'd process (fresh ASLR and hash seeds) — must agree on a digest of defined registers, flags, FS/GS, every area byte, executed count, structured trace, call stack, rendered trace()/call_stack() text, resolve_symbol of every symbol address, result and full error text, and hook events; non-trivial = ≥1 register left random and ≥2 instructions; distinct by hash(case)".into()
    }
    fn required_classes(&self, _tier: Tier) -> Vec<String> {
        ["ends-in-error", "finishes", "with-hooks", "cross-process", "elf-with-symbol-aliases", "uses-xmm", "entry-frame-with-strings", "anywhere-areas", "syscall-with-several-hooks", "brk-handler-with-syscalls", "single-instruction-of-any-form", "interrupt-with-several-hooks"].iter().map(|s| s.to_string()).collect()
    }
    fn assumptions(&self) -> Vec<String> {
        vec!["the defined set (explicitly written ∪ fully written by an executed instruction or a hook; GPRs and XMM) is what is compared".into(), "pipe descriptor numbers do not occur (no pipe handler in these programs)".into()]
    }
}
