//! ELF64-LE builder: constructs a file from a description (C15, C16, C17).
use serde::{Deserialize, Serialize};

pub const PT_NULL: u32 = 0;
pub const PT_LOAD: u32 = 1;
pub const PT_DYNAMIC: u32 = 2;
pub const PT_NOTE: u32 = 4;
pub const PT_PHDR: u32 = 6;
pub const PT_TLS: u32 = 7;
pub const PT_GNU_EH_FRAME: u32 = 0x6474e550;
pub const PT_GNU_STACK: u32 = 0x6474e551;
pub const PT_GNU_RELRO: u32 = 0x6474e552;

#[derive(Clone, Debug, Serialize, Deserialize, PartialEq)]
pub struct Seg {
    pub p_type: u32,
    pub flags: u32,
    pub vaddr: u64,
    pub filesz: u64,
    pub memsz: u64,
    pub seed: u64,
}

#[derive(Clone, Debug, Serialize, Deserialize, PartialEq)]
pub struct Sym {
    pub name: Option<String>,
    pub value: u64,
    pub defined: bool,
}

#[derive(Clone, Debug, Serialize, Deserialize, PartialEq)]
pub struct ElfDesc {
    pub entry: u64,
    pub segs: Vec<Seg>,
    pub syms: Option<Vec<Sym>>,
    pub with_shdrs: bool,
}

pub fn seg_data(s: &Seg) -> Vec<u8> {
    let mut d = crate::mach::fill(s.seed, crate::native::ArenaKind::Rw, s.filesz as usize);
    // avoid accidental all-zero tails so that "bss reads as zero" is distinguishable from file bytes
    if let Some(l) = d.last_mut() {
        *l |= 1;
    }
    d
}

/// Offsets of interesting structures in a built file (for field-aware mutation).
#[derive(Clone, Debug, Default)]
pub struct Layout {
    pub phoff: usize,
    pub phnum: usize,
    pub shoff: usize,
    pub shnum: usize,
    pub seg_offsets: Vec<usize>,
    pub boundaries: Vec<usize>,
}

fn put16(b: &mut Vec<u8>, v: u16) {
    b.extend_from_slice(&v.to_le_bytes());
}
fn put32(b: &mut Vec<u8>, v: u32) {
    b.extend_from_slice(&v.to_le_bytes());
}
fn put64(b: &mut Vec<u8>, v: u64) {
    b.extend_from_slice(&v.to_le_bytes());
}

pub fn build(d: &ElfDesc) -> (Vec<u8>, Layout) {
    let phnum = d.segs.len();
    let phoff = 64usize;
    let mut lay = Layout { phoff, phnum, ..Default::default() };
    let mut file = vec![0u8; phoff + 56 * phnum];
    lay.boundaries.extend_from_slice(&[16, 24, 32, 40, 64, file.len()]);
    // segment data: p_offset ≡ p_vaddr (mod 4096)
    let mut offsets = vec![];
    for s in &d.segs {
        let want = (s.vaddr & 0xfff) as usize;
        let mut off = file.len();
        if s.filesz > 0 || s.p_type == PT_LOAD {
            let cur = off & 0xfff;
            off += if want >= cur { want - cur } else { 0x1000 - cur + want };
            file.resize(off, 0);
            file.extend_from_slice(&seg_data(s));
        }
        offsets.push(off);
        lay.boundaries.push(file.len());
    }
    lay.seg_offsets = offsets.clone();
    // symbol table + string tables + section headers
    let mut shoff = 0usize;
    let mut shnum = 0usize;
    let mut shstrndx = 0u16;
    if d.with_shdrs {
        let mut strtab = vec![0u8];
        let mut symtab = vec![0u8; 24]; // null symbol
        if let Some(syms) = &d.syms {
            for s in syms {
                let name_off = match &s.name {
                    Some(n) => {
                        let o = strtab.len() as u32;
                        strtab.extend_from_slice(n.as_bytes());
                        strtab.push(0);
                        o
                    }
                    None => 0,
                };
                put32(&mut symtab, name_off);
                symtab.push(0x12); // GLOBAL FUNC
                symtab.push(0);
                put16(&mut symtab, if s.defined { 1 } else { 0 });
                put64(&mut symtab, s.value);
                put64(&mut symtab, 0);
            }
        }
        let shstr = b"\0.text\0.symtab\0.strtab\0.shstrtab\0".to_vec();
        while file.len() % 8 != 0 {
            file.push(0);
        }
        let symtab_off = file.len();
        file.extend_from_slice(&symtab);
        let strtab_off = file.len();
        file.extend_from_slice(&strtab);
        let shstr_off = file.len();
        file.extend_from_slice(&shstr);
        while file.len() % 8 != 0 {
            file.push(0);
        }
        shoff = file.len();
        lay.boundaries.push(shoff);
        let mut sh = vec![0u8; 64]; // null section
        let mut add = |name: u32, ty: u32, addr: u64, off: usize, size: usize, link: u32, info: u32, entsize: u64| {
            put32(&mut sh, name);
            put32(&mut sh, ty);
            put64(&mut sh, 0);
            put64(&mut sh, addr);
            put64(&mut sh, off as u64);
            put64(&mut sh, size as u64);
            put32(&mut sh, link);
            put32(&mut sh, info);
            put64(&mut sh, 1);
            put64(&mut sh, entsize);
        };
        add(1, 1, d.segs.first().map(|s| s.vaddr).unwrap_or(0), lay.seg_offsets.first().copied().unwrap_or(0), d.segs.first().map(|s| s.filesz as usize).unwrap_or(0), 0, 0, 0);
        if d.syms.is_some() {
            add(7, 2, 0, symtab_off, symtab.len(), 3, 1, 24);
            add(15, 3, 0, strtab_off, strtab.len(), 0, 0, 0);
            add(23, 3, 0, shstr_off, shstr.len(), 0, 0, 0);
            shnum = 5;
            shstrndx = 4;
        } else {
            add(23, 3, 0, shstr_off, shstr.len(), 0, 0, 0);
            shnum = 3;
            shstrndx = 2;
        }
        file.extend_from_slice(&sh);
        lay.boundaries.push(file.len());
    }
    lay.shoff = shoff;
    lay.shnum = shnum;
    // ELF header
    let mut h = vec![0x7f, b'E', b'L', b'F', 2, 1, 1, 0, 0, 0, 0, 0, 0, 0, 0, 0];
    put16(&mut h, 2); // ET_EXEC
    put16(&mut h, 62); // EM_X86_64
    put32(&mut h, 1);
    put64(&mut h, d.entry);
    put64(&mut h, phoff as u64);
    put64(&mut h, shoff as u64);
    put32(&mut h, 0);
    put16(&mut h, 64);
    put16(&mut h, 56);
    put16(&mut h, phnum as u16);
    put16(&mut h, 64);
    put16(&mut h, shnum as u16);
    put16(&mut h, shstrndx);
    file[..64].copy_from_slice(&h);
    // program headers
    for (i, s) in d.segs.iter().enumerate() {
        let mut p = vec![];
        put32(&mut p, s.p_type);
        put32(&mut p, s.flags);
        put64(&mut p, lay.seg_offsets[i] as u64);
        put64(&mut p, s.vaddr);
        put64(&mut p, s.vaddr);
        put64(&mut p, s.filesz);
        put64(&mut p, s.memsz);
        put64(&mut p, if s.p_type == PT_LOAD { 0x1000 } else { 8 });
        file[phoff + 56 * i..phoff + 56 * (i + 1)].copy_from_slice(&p);
    }
    (file, lay)
}

/// Generate a well-formed static executable description (C15's domain).
pub fn gen_desc(t: &mut crate::tape::Tape) -> ElfDesc {
    let nload = 1 + t.below(5) as usize;
    let mut page = 0x40_0000u64 + 0x1000 * t.below(16);
    if t.below(8) == 0 {
        page = 0x1_0000 * (1 + t.below(8));
    }
    let mut segs = vec![];
    for _ in 0..nload {
        let inpage = match t.below(4) {
            0 | 1 => 0,
            2 => 8 * t.below(0x1f0),
            _ => t.below(0x1000),
        };
        let vaddr = page + inpage;
        let filesz = match t.below(8) {
            0 => 0,
            1 => 1,
            2 => 0x1000,
            3 => 0x1000 - inpage,
            4 => t.below(0x3000),
            _ => t.below(0x400),
        };
        let memsz = match t.below(8) {
            0 | 1 | 2 => filesz,
            3 => filesz + 1 + t.below(0x2000), // bss tail
            4 => (filesz + 0xfff) & !0xfff,    // exact page multiple
            5 => ((filesz + 0xfff) & !0xfff) + 1, // one byte over a page
            6 => ((inpage + filesz + 0xfff) & !0xfff) - inpage, // ends exactly at a page boundary
            _ => filesz + t.below(0x100),
        }
        .max(1);
        let flags = t.below(8) as u32;
        segs.push(Seg { p_type: PT_LOAD, flags, vaddr, filesz, memsz, seed: t.raw() });
        // next segment: a later page (gap 0 = the directly following page)
        let end_page = (vaddr + memsz + 0xfff) & !0xfff;
        page = end_page + 0x1000 * t.weighted(&[50, 25, 15, 10]) as u64;
    }
    // entry inside a segment with file bytes if possible
    let es = &segs[t.below(segs.len() as u64) as usize];
    let entry = es.vaddr + t.below(es.memsz.max(1));
    // skippable headers
    if t.below(3) == 0 {
        segs.push(Seg { p_type: PT_NOTE, flags: 4, vaddr: segs[0].vaddr + 8, filesz: 0x20.min(segs[0].filesz), memsz: 0x20, seed: 9 });
    }
    if t.below(3) == 0 {
        segs.push(Seg { p_type: PT_GNU_STACK, flags: 6, vaddr: 0, filesz: 0, memsz: 0, seed: 0 });
    }
    if t.below(4) == 0 {
        segs.push(Seg { p_type: PT_NULL, flags: 0, vaddr: 0, filesz: 0, memsz: 0, seed: 0 });
    }
    if t.below(4) == 0 {
        segs.insert(0, Seg { p_type: PT_PHDR, flags: 4, vaddr: 0x40, filesz: 0, memsz: 0x100, seed: 0 });
    }
    // shuffle the program header order
    let n = segs.len();
    for i in (1..n).rev() {
        let j = t.below(i as u64 + 1) as usize;
        if t.below(3) == 0 {
            segs.swap(i, j);
        }
    }
    let with_shdrs = t.below(4) != 0;
    let syms = if with_shdrs && t.below(4) != 0 {
        let ns = t.below(8);
        let loads: Vec<&Seg> = segs.iter().filter(|s| s.p_type == PT_LOAD).collect();
        let mut v = vec![];
        for k in 0..ns {
            let s = loads[t.below(loads.len() as u64) as usize];
            let value = match t.below(5) {
                0 => entry,
                1 if !v.is_empty() => {
                    let p: &Sym = &v[t.below(v.len() as u64) as usize];
                    p.value // same address as another symbol
                }
                _ => s.vaddr + t.below(s.memsz.max(1)),
            };
            let name = match t.below(10) {
                0 | 1 => None,
                // long names mixing 1–4 byte UTF-8 characters (length and character widths land on
                // every byte offset, so any fixed-size handling of names meets a split character)
                2 => Some(wide_name(t.raw(), 1 + t.below(700) as usize)),
                _ => Some(format!("sym{}_{}", k, t.below(1000))),
            };
            v.push(Sym { name, value, defined: t.below(6) != 0 });
        }
        Some(v)
    } else {
        None
    };
    ElfDesc { entry, segs, syms, with_shdrs }
}

/// A name of about `bytes` bytes whose characters are 1, 2, 3 or 4 bytes wide, expanded from one tape word.
pub fn wide_name(seed: u64, bytes: usize) -> String {
    let mut out = String::new();
    let mut x = seed | 1;
    while out.len() < bytes {
        x = crate::util::mix64(x);
        out.push(match x % 8 {
            0 | 1 | 2 | 3 => (b'a' + (x >> 8) as u8 % 26) as char,
            4 | 5 => char::from_u32(0xe0 + (x >> 8) as u32 % 0x18).unwrap(),   // 2 bytes
            6 => char::from_u32(0x20a0 + (x >> 8) as u32 % 0x20).unwrap(),     // 3 bytes
            _ => char::from_u32(0x1f600 + (x >> 8) as u32 % 0x40).unwrap(),    // 4 bytes
        });
    }
    out
}
