#![no_main]
//! libFuzzer target for C16: the semantic oracle (Ok/Err, no panic, allocation cap) is inside.
use libfuzzer_sys::fuzz_target;

fuzz_target!(|data: &[u8]| {
    if data.len() > (1 << 16) {
        return;
    }
    if let Err((sig, msg)) = axverif::props::c16::judge(data) {
        panic!("C16 violation {}: {}", sig, msg);
    }
});
