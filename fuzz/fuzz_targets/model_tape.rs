#![no_main]
//! libFuzzer target for the model-engine properties: the input bytes are a choice tape of the
//! property's own shape, decoded by the property's own generator and judged by its own oracle.
//! The property is chosen with AXVERIF_FUZZ_PROP (one campaign = one property).
use libfuzzer_sys::fuzz_target;
use std::cell::RefCell;

thread_local! {
    static F: RefCell<Option<Box<dyn FnMut(&[u8])>>> = RefCell::new(None);
}

fuzz_target!(|data: &[u8]| {
    F.with(|f| {
        let mut f = f.borrow_mut();
        if f.is_none() {
            let id = std::env::var("AXVERIF_FUZZ_PROP").expect("AXVERIF_FUZZ_PROP=<ID> selects the property");
            *f = Some(axverif::props::fuzz_entry(&id).expect("property has no tape target"));
        }
        (f.as_mut().unwrap())(data);
    });
});
