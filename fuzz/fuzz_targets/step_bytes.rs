#![no_main]
//! libFuzzer target for C19: input bytes are a choice tape for the same structured generator
//! (register seeds, flags, layout, instruction bytes); the oracle is C19's.
use axverif::sup::{Property, Verdict};
use libfuzzer_sys::fuzz_target;
use std::cell::RefCell;

thread_local! {
    static P: RefCell<Option<axverif::props::c19::C19>> = RefCell::new(None);
}

fuzz_target!(|data: &[u8]| {
    P.with(|p| {
        let mut p = p.borrow_mut();
        if p.is_none() {
            let mut c = axverif::props::c19::C19::new();
            c.setup();
            *p = Some(c);
        }
        let prop = p.as_mut().unwrap();
        let case = prop.decode(&vec![axverif::props::c19::tape_from_bytes(data)]);
        let out = prop.exec(&case);
        if let Verdict::Fail { sig, msg } = out.verdict {
            panic!("C19 violation {}: {}", sig, msg);
        }
    });
});
